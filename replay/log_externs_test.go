package log

// Validation of assumed contracts (/verif/specs/externs.vc) of library functions against the real
// libraries, over bounded input sets.  This validates ASSUMPTIONS: it is reported as bounded, with its
// bounds, is never added to the obligations proved, and runs in the thorough tier only.
// Injected into the package with -overlay (nothing is written to /repo).
//
// Output protocol: "EXTERN-OK <extern name>[,<extern name>...]: <what was compared, with the bound>"
//                  "EXTERN-VIOLATION <extern name>: <input and disagreement>"

import (
	"bytes"
	"fmt"
	"os"
	"path/filepath"
	"reflect"
	"slices"
	"sort"
	"strconv"
	"strings"
	"testing"
	"unicode/utf8"

	"github.com/go-spring/stdlib/flatten"
	"github.com/go-spring/stdlib/ordered"
)

type externCheck struct {
	names string
	what  string
	run   func() string
}

// every string of length <= n over the alphabet
func allStrings(alphabet string, n int, f func(s string) bool) {
	var rec func(prefix []byte, left int) bool
	rec = func(prefix []byte, left int) bool {
		if !f(string(prefix)) {
			return false
		}
		if left == 0 {
			return true
		}
		for i := 0; i < len(alphabet); i++ {
			if !rec(append(prefix, alphabet[i]), left-1) {
				return false
			}
		}
		return true
	}
	rec(nil, n)
}

func TestGovcExterns(t *testing.T) {
	if os.Getenv("GOVC_EXTERNS") == "" {
		t.Skip("run by govc in the thorough tier")
	}
	const alpha = "a.,_ *"
	const maxLen = 6
	checks := []externCheck{
		{"strings.LastIndex,strings.Contains", fmt.Sprintf("one-byte needle: result in [-1,len), names an occurrence, no later one; Contains == (LastIndex >= 0); all strings of length <= %d over %q x each byte of it", maxLen, alpha), func() string {
			bad := ""
			allStrings(alpha, maxLen, func(s string) bool {
				for i := 0; i < len(alpha); i++ {
					c := alpha[i : i+1]
					r := strings.LastIndex(s, c)
					ok := r >= -1 && r < len(s)
					if ok && r >= 0 {
						ok = s[r] == c[0]
					}
					for k := r + 1; ok && k < len(s); k++ {
						if k >= 0 && s[k] == c[0] {
							ok = false
						}
					}
					if ok && strings.Contains(s, c) != (r >= 0) {
						ok = false
					}
					if !ok {
						bad = fmt.Sprintf("LastIndex(%q, %q) = %d", s, c, r)
						return false
					}
				}
				return true
			})
			return bad
		}},
		{"strings.CutSuffix,strings.TrimSuffix,strings.HasSuffix,strings.CutPrefix,strings.HasPrefix,strings.TrimPrefix", fmt.Sprintf("against the slice definitions; all strings of length <= %d over %q x affixes \"_*\", \"?\", \"!\", \".\", \"a.\", \"\"", maxLen, alpha), func() string {
			bad := ""
			affixes := []string{"_*", "?", "!", ".", "a.", "", "*"}
			allStrings(alpha+"?!", 5, func(s string) bool {
				for _, p := range affixes {
					hs := len(p) <= len(s) && s[len(s)-len(p):] == p
					hp := len(p) <= len(s) && s[:len(p)] == p
					before, found := strings.CutSuffix(s, p)
					after, foundP := strings.CutPrefix(s, p)
					wantB, wantA := s, s
					if hs {
						wantB = s[:len(s)-len(p)]
					}
					if hp {
						wantA = s[len(p):]
					}
					if strings.HasSuffix(s, p) != hs || strings.HasPrefix(s, p) != hp || found != hs || before != wantB || strings.TrimSuffix(s, p) != wantB || foundP != hp || after != wantA || strings.TrimPrefix(s, p) != wantA {
						bad = fmt.Sprintf("affix functions disagree with the slice definitions on (%q, %q)", s, p)
						return false
					}
				}
				return true
			})
			return bad
		}},
		{"strings.SplitSeq,strings.Split", fmt.Sprintf("one-byte separator: the iterator yields exactly the pieces of Split, in order, stops when told to; 1 <= pieces <= len+1, one piece for \"\"; the pieces joined give the input back; all strings of length <= %d over %q x separators ',' ';' '.'", maxLen, alpha+";"), func() string {
			bad := ""
			allStrings(alpha+";", maxLen, func(s string) bool {
				for _, sep := range []string{",", ";", "."} {
					want := strings.Split(s, sep)
					var got []string
					for p := range strings.SplitSeq(s, sep) {
						got = append(got, p)
					}
					ok := len(got) == len(want) && len(want) >= 1 && len(want) <= len(s)+1 && (s != "" || len(want) == 1) && strings.Join(want, sep) == s && len(want) == strings.Count(s, sep)+1
					for i := 0; ok && i < len(want); i++ {
						ok = got[i] == want[i]
					}
					if ok && len(want) > 1 {
						n := 0
						for range strings.SplitSeq(s, sep) {
							n++
							break
						}
						ok = n == 1
					}
					if !ok {
						bad = fmt.Sprintf("SplitSeq(%q, %q) = %q, Split = %q", s, sep, got, want)
						return false
					}
				}
				return true
			})
			return bad
		}},
		{"strings.TrimSpace", fmt.Sprintf("the result is a substring without leading/trailing white space, not longer than the input, and trimming is idempotent; all strings of length <= %d over %q", maxLen, "a ,\t\n"), func() string {
			bad := ""
			allStrings("a ,\t\n", maxLen, func(s string) bool {
				r := strings.TrimSpace(s)
				ok := len(r) <= len(s) && strings.Contains(s, r) && strings.TrimSpace(r) == r
				if ok && r != "" {
					ok = !strings.ContainsAny(r[:1], " \t\n") && !strings.ContainsAny(r[len(r)-1:], " \t\n")
				}
				if !ok {
					bad = fmt.Sprintf("TrimSpace(%q) = %q", s, r)
					return false
				}
				return true
			})
			return bad
		}},
		{"(*bytes.Buffer).WriteByte,(*bytes.Buffer).WriteString,(*bytes.Buffer).Write,(*bytes.Buffer).Bytes,(*bytes.Buffer).Reset,(*bytes.Buffer).Len", "a buffer holds the concatenation of what was written since the last Reset; Bytes shows exactly that; every sequence of <= 5 operations out of 7", func() string {
			ops := 7
			var rec func(seq []int) string
			rec = func(seq []int) string {
				var b bytes.Buffer
				want := ""
				for _, o := range seq {
					switch o {
					case 0:
						b.WriteByte('x')
						want += "x"
					case 1:
						b.WriteString("ab")
						want += "ab"
					case 2:
						b.Write([]byte{0, 255, 10})
						want += "\x00\xff\n"
					case 3:
						b.WriteString("")
					case 4:
						b.Write(nil)
					case 5:
						b.Reset()
						want = ""
					case 6:
						b.WriteString(strings.Repeat("z", 70))
						want += strings.Repeat("z", 70)
					}
					if string(b.Bytes()) != want || b.Len() != len(want) {
						return fmt.Sprintf("after operations %v the buffer holds %q, want %q", seq, b.Bytes(), want)
					}
				}
				if len(seq) == 5 {
					return ""
				}
				for o := 0; o < ops; o++ {
					if msg := rec(append(append([]int(nil), seq...), o)); msg != "" {
						return msg
					}
				}
				return ""
			}
			return rec(nil)
		}},
		{"sort.Slice", "for the one use (appender references by the code of their lower bound): the result is ordered and is a permutation of the input (distinct pointers stay distinct); every sequence of <= 6 references with codes 0..3", func() string {
			codes := []int32{0, 1, 2, 3}
			var rec func(seq []int32) string
			rec = func(seq []int32) string {
				refs := make([]*AppenderRef, len(seq))
				count := map[*AppenderRef]int{}
				for i, c := range seq {
					refs[i] = &AppenderRef{Level: LevelRange{MinLevel: Level{code: c}, MaxLevel: MaxLevel}}
					count[refs[i]]++
				}
				sort.Slice(refs, func(i, j int) bool { return refs[i].Level.MinLevel.code < refs[j].Level.MinLevel.code })
				for i, r := range refs {
					count[r]--
					if i > 0 && refs[i-1].Level.MinLevel.code > r.Level.MinLevel.code {
						return fmt.Sprintf("sort.Slice leaves %v out of order", seq)
					}
				}
				for _, n := range count {
					if n != 0 {
						return fmt.Sprintf("sort.Slice of %v is not a permutation", seq)
					}
				}
				if len(seq) == 6 {
					return ""
				}
				for _, c := range codes {
					if msg := rec(append(append([]int32(nil), seq...), c)); msg != "" {
						return msg
					}
				}
				return ""
			}
			return rec(nil)
		}},
		{"slices.Contains,ordered.MapKeys", "Contains == exists; MapKeys lists exactly the keys of the map, each once; every subset of 5 strings", func() string {
			pool := []string{"a", "b", "", "_x", "a_b"}
			for mask := 0; mask < 1<<len(pool); mask++ {
				m := map[string]int{}
				var sl []string
				for i, p := range pool {
					if mask&(1<<i) != 0 {
						m[p] = i
						sl = append(sl, p)
					}
				}
				keys := ordered.MapKeys(m)
				seen := map[string]bool{}
				for _, k := range keys {
					if _, ok := m[k]; !ok || seen[k] {
						return fmt.Sprintf("MapKeys(%v) = %q", m, keys)
					}
					seen[k] = true
				}
				if len(keys) != len(m) {
					return fmt.Sprintf("MapKeys(%v) = %q", m, keys)
				}
				for _, p := range pool {
					_, in := m[p]
					if slices.Contains(sl, p) != in {
						return fmt.Sprintf("slices.Contains(%q, %q)", sl, p)
					}
				}
			}
			return ""
		}},
		{"utf8.DecodeRuneInString,utf8.DecodeRune", "the decoder of /verif/specs/prelude/20_utf8.smt2 (RFC 3629 table: utf8_rune, utf8_size), transcribed to Go, against the library on every string of 1, 2 and 3 bytes and every 4-byte string whose first byte is >= 0xC0 (a smaller first byte decides alone)", func() string {
			cont := func(b byte) bool { return 128 <= b && b <= 191 }
			spec := func(s string) (rune, int) {
				b0 := s[0]
				if b0 < 128 {
					return rune(b0), 1
				}
				if len(s) >= 2 && 194 <= b0 && b0 <= 223 && cont(s[1]) {
					return rune(int(b0)-192)*64 + rune(int(s[1])-128), 2
				}
				if len(s) >= 3 && 224 <= b0 && b0 <= 239 && cont(s[1]) && cont(s[2]) && (b0 != 224 || 160 <= s[1]) && (b0 != 237 || s[1] <= 159) {
					return rune(int(b0)-224)*4096 + rune(int(s[1])-128)*64 + rune(int(s[2])-128), 3
				}
				if len(s) >= 4 && 240 <= b0 && b0 <= 244 && cont(s[1]) && cont(s[2]) && cont(s[3]) && (b0 != 240 || 144 <= s[1]) && (b0 != 244 || s[1] <= 143) {
					return rune(int(b0)-240)*262144 + rune(int(s[1])-128)*4096 + rune(int(s[2])-128)*64 + rune(int(s[3])-128), 4
				}
				return 65533, 1
			}
			buf := make([]byte, 4)
			for n := 1; n <= 4; n++ {
				lo := 0
				if n == 4 {
					lo = 0xC0
				}
				var rec func(i int) string
				rec = func(i int) string {
					if i == n {
						s := string(buf[:n])
						r, size := utf8.DecodeRuneInString(s)
						wr, ws := spec(s)
						if r != wr || size != ws {
							return fmt.Sprintf("DecodeRuneInString(%q) = (%d, %d), the spec theory says (%d, %d)", s, r, size, wr, ws)
						}
						return ""
					}
					start := 0
					if i == 0 {
						start = lo
					}
					for b := start; b < 256; b++ {
						buf[i] = byte(b)
						if msg := rec(i + 1); msg != "" {
							return msg
						}
					}
					return ""
				}
				if msg := rec(0); msg != "" {
					return msg
				}
			}
			return ""
		}},
		{"strings.ToUpper,strings.ToLower", "idempotent; 0 <= len(result) <= 4*len(input) (the length may change); every single-rune string U+0000..U+10FFFF, every 1- and 2-byte string, and the level names", func() string {
			chk := func(s string) string {
				u, l := strings.ToUpper(s), strings.ToLower(s)
				if strings.ToUpper(u) != u || strings.ToLower(l) != l || len(u) > 4*len(s) || len(l) > 4*len(s) {
					return fmt.Sprintf("ToUpper/ToLower(%q) = %q / %q", s, u, l)
				}
				return ""
			}
			for r := rune(0); r <= 0x10FFFF; r++ {
				if msg := chk(string(r)); msg != "" {
					return msg
				}
			}
			for a := 0; a < 256; a++ {
				if msg := chk(string([]byte{byte(a)})); msg != "" {
					return msg
				}
				for b := 0; b < 256; b++ {
					if msg := chk(string([]byte{byte(a), byte(b)})); msg != "" {
						return msg
					}
				}
			}
			for _, n := range []string{"none", "trace", "debug", "info", "warn", "error", "panic", "fatal", "max", "Info~Warn", "straße", "ǆ", "ı"} {
				if msg := chk(n); msg != "" {
					return msg
				}
			}
			return ""
		}},
		{"strconv.Itoa", "Itoa(0) == \"0\"; 1 <= len <= 20; Atoi(Itoa(n)) == n; n in -1000..1000, powers of ten and of two and their neighbours, the int64 extremes", func() string {
			ns := []int{0, 1<<63 - 1, -1 << 63}
			for n := -1000; n <= 1000; n++ {
				ns = append(ns, n)
			}
			for p := 1; p > 0 && p < 1<<62; p *= 2 {
				ns = append(ns, p, p-1, p+1, -p)
			}
			for p := 1; p > 0 && p < 1e18; p *= 10 {
				ns = append(ns, p, p-1, p+1, -p)
			}
			if strconv.Itoa(0) != "0" {
				return "Itoa(0) = " + strconv.Itoa(0)
			}
			for _, n := range ns {
				s := strconv.Itoa(n)
				back, err := strconv.Atoi(s)
				if len(s) < 1 || len(s) > 20 || err != nil || back != n {
					return fmt.Sprintf("Itoa(%d) = %q", n, s)
				}
			}
			return ""
		}},
		{"(*os.File).Name,os.OpenFile", "an open file reports the name it was opened with; 6 path spellings", func() string {
			dir, err := os.MkdirTemp("", "govc-externs-")
			if err != nil {
				return ""
			}
			defer os.RemoveAll(dir)
			for _, name := range []string{dir + "/a.log", dir + "//b.log", dir + "/./c.log", filepath.Join(dir, "d.log.20260101000000"), dir + "/x/../e.log", dir + "/f"} {
				f, err := os.OpenFile(name, os.O_CREATE|os.O_WRONLY|os.O_APPEND, 0644)
				if err != nil {
					continue
				}
				got := f.Name()
				f.Close()
				if got != name {
					return fmt.Sprintf("OpenFile(%q).Name() = %q", name, got)
				}
			}
			return ""
		}},
		{"(*flatten.Storage).Set,(*flatten.Storage).Has,(*flatten.Storage).Get,(*flatten.Storage).RawData,(*flatten.Storage).SubKeys,flatten.NewStorage", "a successful Set makes the key and every path prefix present and its value the one shown (a key that showed an empty-container marker keeps showing it) (also p[i] and p below p[i].type: the pathPrefix axiom), never removes a node or changes another key's value; Has follows RawData; Get returns the value, or the default for an absent key; SubKeys are distinct; every sequence of <= 3 Sets over 40 keys (segments a,b, indices [0],[1], depth <= 3, .type leaves) x 4 values incl. the empty-container markers", func() string {
			var keys []string
			segs := []string{"a", "b", "a[0]", "a[1]", "b[0]"}
			for _, x := range segs {
				keys = append(keys, x, x+".type")
				for _, y := range segs[:3] {
					keys = append(keys, x+"."+y, x+"."+y+".type")
				}
			}
			vals := []string{"v", "", "{}", "[]"}
			prefixes := func(k string) []string {
				var out []string
				for i := 0; i < len(k); i++ {
					if k[i] == '.' || k[i] == '[' {
						out = append(out, k[:i])
					}
				}
				return out
			}
			type step struct{ k, v string }
			check := func(seq []step) string {
				s := flatten.NewStorage()
				if s == nil {
					return "NewStorage() == nil"
				}
				for i, st := range seq {
					before := map[string]string{}
					for k, v := range s.RawData() {
						before[k] = v.Value
					}
					var nodes []string
					for _, k := range keys {
						if s.Has(k) {
							nodes = append(nodes, k)
						}
					}
					err := s.Set(st.k, st.v, 0)
					raw := s.RawData()
					if raw == nil {
						return "RawData() == nil"
					}
					if err == nil {
						// the combined view prefers the marker map: a key that showed an empty-container marker
						// keeps showing it when a plain value is set afterwards (this is what externs.vc says)
						isMarker := func(v string) bool { return v == "{}" || v == "[]" || v == "<nil>" }
						want := st.v
						if old, had := before[st.k]; had && isMarker(old) && !isMarker(st.v) {
							want = old
						}
						if e, ok := raw[st.k]; !ok || e.Value != want || !s.Has(st.k) {
							return fmt.Sprintf("after Set(%q, %q) in %v: key absent or value %q, want %q", st.k, st.v, seq[:i], e.Value, want)
						}
						for _, p := range prefixes(st.k) {
							if !s.Has(p) {
								return fmt.Sprintf("after Set(%q) in %v: path prefix %q is not a node", st.k, seq[:i], p)
							}
						}
					}
					for _, k := range nodes {
						if !s.Has(k) {
							return fmt.Sprintf("Set(%q) in %v removed node %q (err=%v)", st.k, seq[:i], k, err)
						}
					}
					for k, v := range before {
						if e, ok := raw[k]; !ok || (k != st.k && e.Value != v) {
							return fmt.Sprintf("Set(%q) in %v changed or removed %q (err=%v)", st.k, seq[:i], k, err)
						}
					}
					for k, e := range raw {
						if !s.Has(k) {
							return fmt.Sprintf("RawData has %q but Has does not, after %v", k, seq[:i+1])
						}
						marker := e.Value == "{}" || e.Value == "[]" || e.Value == "<nil>"
						if got := s.Get(k, ":def:"); !marker && got != e.Value {
							return fmt.Sprintf("Get(%q) = %q, stored %q, after %v", k, got, e.Value, seq[:i+1])
						}
					}
					for _, k := range keys {
						if _, ok := raw[k]; !ok && s.Get(k, ":def:") != ":def:" {
							return fmt.Sprintf("Get(%q, def) of an absent key = %q after %v", k, s.Get(k, ":def:"), seq[:i+1])
						}
					}
					for _, k := range []string{"a", "b", "a[0]", "a.a"} {
						sub, err := s.SubKeys(k)
						if err != nil {
							continue
						}
						seen := map[string]bool{}
						for _, x := range sub {
							if seen[x] {
								return fmt.Sprintf("SubKeys(%q) lists %q twice after %v", k, x, seq[:i+1])
							}
							seen[x] = true
						}
					}
				}
				return ""
			}
			for i, k1 := range keys {
				for _, v1 := range vals {
					if msg := check([]step{{k1, v1}}); msg != "" {
						return msg
					}
					for j, k2 := range keys {
						if msg := check([]step{{k1, v1}, {k2, "w"}}); msg != "" {
							return msg
						}
						if v1 != "v" || (i+j)%3 != 0 {
							continue
						}
						for _, k3 := range keys {
							if msg := check([]step{{k1, v1}, {k2, "{}"}, {k3, "x"}}); msg != "" {
								return msg
							}
						}
					}
				}
			}
			return ""
		}},
		{"reflect.New,(reflect.Value).Elem,(reflect.Value).NumField,(reflect.Value).Field,(reflect.Value).Kind,(reflect.Value).Type,reflect.MakeSlice,reflect.Append,(reflect.StructTag).Lookup", "New(t) is a new non-nil *T whose Elem is a struct of type t; Field(i) has the kind and type Type.Field(i) describes; MakeSlice/Append lengths and items; StructTag.Lookup is a function of tag and key; every registered plugin class", func() string {
			for typ, m := range pluginRegistry {
				for n, p := range m {
					a, b := reflect.New(p.Class), reflect.New(p.Class)
					if a.IsNil() || a.Interface() == nil || a.Pointer() == b.Pointer() || a.Elem().Kind() != reflect.Struct || a.Elem().Type() != p.Class || a.Type() != reflect.PointerTo(p.Class) {
						return fmt.Sprintf("reflect.New of %s class %q", typ, n)
					}
					v := a.Elem()
					for i := 0; i < v.NumField(); i++ {
						ft := p.Class.Field(i)
						if ft.Type == nil || v.Field(i).Type() != ft.Type || v.Field(i).Kind() != ft.Type.Kind() {
							return fmt.Sprintf("field %d of %s class %q: value and type descriptions disagree", i, typ, n)
						}
						v1, ok1 := ft.Tag.Lookup("PluginAttribute")
						v2, ok2 := ft.Tag.Lookup("PluginAttribute")
						if v1 != v2 || ok1 != ok2 {
							return "StructTag.Lookup is not a function"
						}
						if ft.Type.Kind() == reflect.Slice {
							s := reflect.MakeSlice(ft.Type, 0, 1)
							if s.Kind() != reflect.Slice || s.Len() != 0 {
								return "MakeSlice(0, 1)"
							}
							x, y := reflect.New(ft.Type.Elem()).Elem(), reflect.New(ft.Type.Elem()).Elem()
							s1 := reflect.Append(s, x)
							s2 := reflect.Append(s1, y)
							if s1.Len() != 1 || s2.Len() != 2 || s2.Kind() != reflect.Slice || s2.Index(0).Interface() != s1.Index(0).Interface() {
								return "Append lengths/items"
							}
						}
					}
				}
			}
			return ""
		}},
	}
	for _, c := range checks {
		if msg := c.run(); msg != "" {
			fmt.Printf("EXTERN-VIOLATION %s: %s\n", c.names, msg)
		} else {
			fmt.Printf("EXTERN-OK %s: %s\n", c.names, c.what)
		}
	}
}
