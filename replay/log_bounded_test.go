package log

// Bounded stand-ins, injected into the package by `go test -overlay` (never written to /repo).
// They cover code that the contract-based checks cannot reach (Refresh itself: reflection-driven
// plugin construction and a range-over-func loop) and are reported as "bounded", never as proved.
//
// Protocol (stdout):  BOUNDED: cases=<n> distinct=<m> bound=<text>
//                     BOUNDED-VIOLATION: <what failed, with the failing configuration>

import (
	"bytes"
	"fmt"
	"os"
	"sort"
	"strings"
	"testing"
)

// refRoute is the reference longest-prefix matcher of C02: literal entry, else the wildcard P_* with
// the longest proper underscore-delimited prefix P of the tag, else root.
func refRoute(tag string, lists map[string]string, root string) string {
	if n, ok := lists[tag]; ok {
		return n
	}
	best, bestLen := root, -1
	for k, n := range lists {
		p, ok := strings.CutSuffix(k, "_*")
		if !ok || p == "" || len(p) >= len(tag) {
			continue
		}
		if strings.HasPrefix(tag, p+"_") && len(p) > bestLen {
			best, bestLen = n, len(p)
		}
	}
	return best
}

type c02Config struct {
	root     int // 0: none configured, 1: configured, 2: configured and lists a tag
	loggers  [][]string
	spelling int
}

func (c c02Config) String() string {
	return fmt.Sprintf("root=%d loggers=%q spelling=%d", c.root, c.loggers, c.spelling)
}

func joinTags(ts []string, spelling int) string {
	switch spelling {
	case 1:
		return " " + strings.Join(ts, " , ") + " ,"
	case 2:
		return "," + strings.Join(ts, ",,")
	}
	return strings.Join(ts, ",")
}

func (c c02Config) data() map[string]string {
	d := map[string]string{
		"appender.console.type": "Console",
		// handles registered by the repository's own test files must be configured too
		"logger.myLogger.type":            "Logger",
		"logger.myLogger.tags":            "_replayx_*",
		"logger.myLogger.appenderRef.ref": "console",
	}
	if c.root > 0 {
		d["logger.root.type"] = "Logger"
		d["logger.root.appenderRef.ref"] = "console"
		if c.root == 2 {
			d["logger.root.tags"] = "zzz_*"
		}
	}
	for i, ts := range c.loggers {
		n := fmt.Sprintf("l%d", i+1)
		d["logger."+n+".type"] = "Logger"
		d["logger."+n+".appenderRef.ref"] = "console"
		if len(ts) > 0 {
			d["logger."+n+".tags"] = joinTags(ts, c.spelling)
		}
	}
	return d
}

// expectation: ("" , lists) when Refresh must succeed, (reason, nil) when it must fail
func (c c02Config) expect() (string, map[string]string) {
	if c.root == 2 {
		return "the root logger lists tags", nil
	}
	lists := map[string]string{"_replayx_*": "myLogger"}
	for i, ts := range c.loggers {
		n := fmt.Sprintf("l%d", i+1)
		if len(ts) == 0 {
			return "non-root logger " + n + " lists no tags", nil
		}
		for _, t := range ts {
			if strings.Contains(t, "*") && !strings.HasSuffix(t, "_*") {
				return "wildcard " + t + " is not of the form ..._*", nil
			}
		}
	}
	for i, ts := range c.loggers {
		n := fmt.Sprintf("l%d", i+1)
		for _, t := range ts {
			if o, ok := lists[t]; ok && o != n {
				return "loggers " + o + " and " + n + " both list " + t, nil
			}
			lists[t] = n
		}
	}
	return "", lists
}

func subsetsUpTo(pool []string, k int) [][]string {
	out := [][]string{{}}
	var rec func(start int, cur []string)
	rec = func(start int, cur []string) {
		if len(cur) > 0 {
			out = append(out, append([]string(nil), cur...))
		}
		if len(cur) == k {
			return
		}
		for i := start; i < len(pool); i++ {
			rec(i+1, append(cur, pool[i]))
		}
	}
	rec(0, nil)
	return out
}

func TestGovcBounded_C02(t *testing.T) {
	if os.Getenv("GOVC_BOUNDED") == "" {
		t.Skip("no bounded run requested")
	}
	thorough := os.Getenv("GOVC_BOUNDED") == "thorough"
	var out bytes.Buffer
	save := Stdout
	Stdout = &out
	defer func() { Stdout = save }()
	Destroy()
	universe := []string{"a_b_c", "a_b", "_a_b_c", "_a_b", "a_bc", "abc", "a_b_c_d", "_ab"}
	for _, u := range universe {
		RegisterTag(u)
	}
	pool := []string{
		"a_b_c", "a_b", "_a_b_c", // literals
		"a_*", "a_b_*", "_a_*", "_a_b_*", "a_b_c_*", // wildcards on delimited prefixes
		"ab_*", "a_bc_*", "_a_b_c_*", // wildcards that are no proper delimited prefix of some tags
		"a*", "a_*x", "*", // malformed wildcards
	}
	k := 2
	nLoggers := 2
	if thorough {
		nLoggers = 3
	}
	subs := subsetsUpTo(pool, k)
	if thorough {
		// three loggers: single-entry lists plus the two-entry lists over the well-formed items
		subs = subsetsUpTo(pool[:11], 2)
		for _, p := range pool[11:] {
			subs = append(subs, []string{p})
		}
	}
	cases, distinct := 0, 0
	seenOutcome := map[string]bool{}
	fail := func(c c02Config, what string) {
		fmt.Printf("BOUNDED-VIOLATION: %s; configuration: %s\n", what, c)
	}
	violations := 0
	run := func(c c02Config) {
		cases++
		want, lists := c.expect()
		err := Refresh(c.data())
		defer Destroy()
		if want != "" {
			if err == nil {
				violations++
				if violations <= 3 {
					fail(c, "Refresh returned nil although "+want)
				}
			}
			if !seenOutcome["err:"+strings.SplitN(want, " ", 3)[0]+strings.SplitN(want, " ", 3)[1]] {
				seenOutcome["err:"+strings.SplitN(want, " ", 3)[0]+strings.SplitN(want, " ", 3)[1]] = true
			}
			return
		}
		if err != nil {
			violations++
			if violations <= 3 {
				fail(c, "Refresh failed on a valid configuration: "+err.Error())
			}
			return
		}
		root := "<built-in>"
		if c.root == 1 {
			root = "root"
		}
		var sig []string
		for name, tag := range tagRegistry {
			wantName := refRoute(name, lists, root)
			got := "<built-in>"
			l := getLogger(tag)
			if l != defaultLogger {
				got = l.GetName()
			}
			sig = append(sig, name+"="+got)
			if got != wantName {
				violations++
				if violations <= 3 {
					fail(c, fmt.Sprintf("tag %q is served by %s, the most specific configured logger is %s", name, got, wantName))
				}
				return
			}
		}
		sort.Strings(sig)
		key := strings.Join(sig, ",")
		if !seenOutcome[key] {
			seenOutcome[key] = true
		}
	}
	var rec func(i int, cur [][]string)
	rec = func(i int, cur [][]string) {
		if i == nLoggers {
			for root := 0; root <= 2; root++ {
				run(c02Config{root: root, loggers: append([][]string(nil), cur...), spelling: cases % 3})
			}
			return
		}
		for _, s := range subs {
			rec(i+1, append(cur, s))
		}
	}
	rec(0, nil)
	distinct = len(seenOutcome)
	fmt.Printf("BOUNDED: cases=%d distinct=%d bound=%d registered tags (1-4 segments, with and without leading underscore, shared prefixes) x %d loggers with tag lists of at most %d entries out of %d literal, wildcard and malformed entries x root absent/configured/configured-with-tags x 3 list spellings; distinct counts distinct outcomes (tag-to-logger bindings or error classes)\n",
		cases, distinct, len(universe), nLoggers, k, len(pool))
}

// replay of a failed obligation of Refresh's findLoggerForTag closure: the tag of the solver's model
// (when it is a valid tag) and a fixed family of tags are routed by the real Refresh under every
// configuration of two loggers listing at most two of: the tag itself, P_* for every prefix P of the
// tag (delimited or not), with and without a configured root.
func init() {
	replayers["Refresh/findLoggerForTag"] = func(in map[string]any) {
		var out bytes.Buffer
		save := Stdout
		Stdout = &out
		defer func() { Stdout = save }()
		Destroy()
		tags := []string{"a_b_c", "_a_b_c", "a_bc", "a_b_c_d", "abc_d"}
		if t := rBytes(in["tag"]); isValidTag(t) {
			tags = append([]string{t}, tags...)
		}
		for _, t := range tags {
			RegisterTag(t)
		}
		for _, t := range tags {
			pool := []string{t}
			for j := 1; j < len(t); j++ {
				if t[j-1] != '_' {
					pool = append(pool, t[:j]+"_*")
				}
			}
			pool = append(pool, t+"_*")
			subs := subsetsUpTo(pool, 2)
			for _, s1 := range subs {
				for _, s2 := range subs {
					for root := 0; root <= 1; root++ {
						c := c02Config{root: root, loggers: [][]string{s1, s2}}
						want, lists := c.expect()
						if want != "" {
							continue
						}
						err := Refresh(c.data())
						if err != nil {
							Destroy()
							continue
						}
						rootName := "<built-in>"
						if root == 1 {
							rootName = "root"
						}
						for name, tag := range tagRegistry {
							got := "<built-in>"
							if l := getLogger(tag); l != defaultLogger {
								got = l.GetName()
							}
							if w := refRoute(name, lists, rootName); got != w {
								fmt.Printf("REPLAY: confirmed tag %q is served by logger %s, the most specific configured logger is %s; configuration: %s\n", name, got, w, c)
								Destroy()
								return
							}
						}
						Destroy()
					}
				}
			}
		}
		fmt.Println("REPLAY: not-reproduced")
	}
}
