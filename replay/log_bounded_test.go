package log

// Bounded stand-ins, injected into the package by `go test -overlay` (never written to /repo).
// They cover code that the contract-based checks cannot reach (Refresh itself: reflection-driven
// plugin construction and a range-over-func loop) and are reported as "bounded", never as proved.
//
// Protocol (stdout):  BOUNDED: cases=<n> distinct=<m> bound=<text>
//                     BOUNDED-VIOLATION: <what failed, with the failing configuration>

import (
	"bytes"
	"fmt"
	"os"
	"reflect"
	"sort"
	"strings"
	"testing"

	"github.com/go-spring/log/expr"
)

// refRoute is the reference longest-prefix matcher of C02: literal entry, else the wildcard P_* with
// the longest proper underscore-delimited prefix P of the tag, else root.
func refRoute(tag string, lists map[string]string, root string) string {
	if n, ok := lists[tag]; ok {
		return n
	}
	best, bestLen := root, -1
	for k, n := range lists {
		p, ok := strings.CutSuffix(k, "_*")
		if !ok || p == "" || len(p) >= len(tag) {
			continue
		}
		if strings.HasPrefix(tag, p+"_") && len(p) > bestLen {
			best, bestLen = n, len(p)
		}
	}
	return best
}

type c02Config struct {
	root     int // 0: none configured, 1: configured, 2: configured and lists a tag
	loggers  [][]string
	spelling int
}

func (c c02Config) String() string {
	return fmt.Sprintf("root=%d loggers=%q spelling=%d", c.root, c.loggers, c.spelling)
}

func joinTags(ts []string, spelling int) string {
	switch spelling {
	case 1:
		return " " + strings.Join(ts, " , ") + " ,"
	case 2:
		return "," + strings.Join(ts, ",,")
	}
	return strings.Join(ts, ",")
}

func (c c02Config) data() map[string]string {
	d := map[string]string{
		"appender.console.type": "Console",
		// handles registered by the repository's own test files must be configured too
		"logger.myLogger.type":            "Logger",
		"logger.myLogger.tags":            "_replayx_*",
		"logger.myLogger.appenderRef.ref": "console",
	}
	if c.root > 0 {
		d["logger.root.type"] = "Logger"
		d["logger.root.appenderRef.ref"] = "console"
		if c.root == 2 {
			d["logger.root.tags"] = "zzz_*"
		}
	}
	for i, ts := range c.loggers {
		n := fmt.Sprintf("l%d", i+1)
		d["logger."+n+".type"] = "Logger"
		d["logger."+n+".appenderRef.ref"] = "console"
		if len(ts) > 0 {
			d["logger."+n+".tags"] = joinTags(ts, c.spelling)
		}
	}
	return d
}

// expectation: ("" , lists) when Refresh must succeed, (reason, nil) when it must fail
func (c c02Config) expect() (string, map[string]string) {
	if c.root == 2 {
		return "the root logger lists tags", nil
	}
	lists := map[string]string{"_replayx_*": "myLogger"}
	for i, ts := range c.loggers {
		n := fmt.Sprintf("l%d", i+1)
		if len(ts) == 0 {
			return "non-root logger " + n + " lists no tags", nil
		}
		for _, t := range ts {
			if strings.Contains(t, "*") && !strings.HasSuffix(t, "_*") {
				return "wildcard " + t + " is not of the form ..._*", nil
			}
		}
	}
	for i, ts := range c.loggers {
		n := fmt.Sprintf("l%d", i+1)
		for _, t := range ts {
			if o, ok := lists[t]; ok && o != n {
				return "loggers " + o + " and " + n + " both list " + t, nil
			}
			lists[t] = n
		}
	}
	return "", lists
}

func subsetsUpTo(pool []string, k int) [][]string {
	out := [][]string{{}}
	var rec func(start int, cur []string)
	rec = func(start int, cur []string) {
		if len(cur) > 0 {
			out = append(out, append([]string(nil), cur...))
		}
		if len(cur) == k {
			return
		}
		for i := start; i < len(pool); i++ {
			rec(i+1, append(cur, pool[i]))
		}
	}
	rec(0, nil)
	return out
}

func TestGovcBounded_C02(t *testing.T) {
	if os.Getenv("GOVC_BOUNDED") == "" {
		t.Skip("no bounded run requested")
	}
	thorough := os.Getenv("GOVC_BOUNDED") == "thorough"
	var out bytes.Buffer
	save := Stdout
	Stdout = &out
	defer func() { Stdout = save }()
	Destroy()
	universe := []string{"a_b_c", "a_b", "_a_b_c", "_a_b", "a_bc", "abc", "a_b_c_d", "_ab"}
	for _, u := range universe {
		RegisterTag(u)
	}
	pool := []string{
		"a_b_c", "a_b", "_a_b_c", // literals
		"a_*", "a_b_*", "_a_*", "_a_b_*", "a_b_c_*", // wildcards on delimited prefixes
		"ab_*", "a_bc_*", "_a_b_c_*", // wildcards that are no proper delimited prefix of some tags
		"a*", "a_*x", "*", // malformed wildcards
	}
	k := 2
	nLoggers := 2
	if thorough {
		nLoggers = 3
	}
	subs := subsetsUpTo(pool, k)
	if thorough {
		// three loggers: single-entry lists plus the two-entry lists over the well-formed items
		subs = subsetsUpTo(pool[:11], 2)
		for _, p := range pool[11:] {
			subs = append(subs, []string{p})
		}
	}
	cases, distinct := 0, 0
	seenOutcome := map[string]bool{}
	fail := func(c c02Config, what string) {
		fmt.Printf("BOUNDED-VIOLATION: %s; configuration: %s\n", what, c)
	}
	violations := 0
	run := func(c c02Config) {
		cases++
		want, lists := c.expect()
		err := Refresh(c.data())
		defer Destroy()
		if want != "" {
			if err == nil {
				violations++
				if violations <= 3 {
					fail(c, "Refresh returned nil although "+want)
				}
			}
			if !seenOutcome["err:"+strings.SplitN(want, " ", 3)[0]+strings.SplitN(want, " ", 3)[1]] {
				seenOutcome["err:"+strings.SplitN(want, " ", 3)[0]+strings.SplitN(want, " ", 3)[1]] = true
			}
			return
		}
		if err != nil {
			violations++
			if violations <= 3 {
				fail(c, "Refresh failed on a valid configuration: "+err.Error())
			}
			return
		}
		root := "<built-in>"
		if c.root == 1 {
			root = "root"
		}
		var sig []string
		for name, tag := range tagRegistry {
			wantName := refRoute(name, lists, root)
			got := "<built-in>"
			l := getLogger(tag)
			if l != defaultLogger {
				got = l.GetName()
			}
			sig = append(sig, name+"="+got)
			if got != wantName {
				violations++
				if violations <= 3 {
					fail(c, fmt.Sprintf("tag %q is served by %s, the most specific configured logger is %s", name, got, wantName))
				}
				return
			}
		}
		sort.Strings(sig)
		key := strings.Join(sig, ",")
		if !seenOutcome[key] {
			seenOutcome[key] = true
		}
	}
	var rec func(i int, cur [][]string)
	rec = func(i int, cur [][]string) {
		if i == nLoggers {
			for root := 0; root <= 2; root++ {
				run(c02Config{root: root, loggers: append([][]string(nil), cur...), spelling: cases % 3})
			}
			return
		}
		for _, s := range subs {
			rec(i+1, append(cur, s))
		}
	}
	rec(0, nil)
	distinct = len(seenOutcome)
	fmt.Printf("BOUNDED: cases=%d distinct=%d bound=%d registered tags (1-4 segments, with and without leading underscore, shared prefixes) x %d loggers with tag lists of at most %d entries out of %d literal, wildcard and malformed entries x root absent/configured/configured-with-tags x 3 list spellings; distinct counts distinct outcomes (tag-to-logger bindings or error classes)\n",
		cases, distinct, len(universe), nLoggers, k, len(pool))
}

// replay of a failed obligation of Refresh's findLoggerForTag closure: the tag of the solver's model
// (when it is a valid tag) and a fixed family of tags are routed by the real Refresh under every
// configuration of two loggers listing at most two of: the tag itself, P_* for every prefix P of the
// tag (delimited or not), with and without a configured root.
func init() {
	replayers["Refresh/findLoggerForTag"] = func(in map[string]any) {
		var out bytes.Buffer
		save := Stdout
		Stdout = &out
		defer func() { Stdout = save }()
		Destroy()
		tags := []string{"a_b_c", "_a_b_c", "a_bc", "a_b_c_d", "abc_d"}
		if t := rBytes(in["tag"]); isValidTag(t) {
			tags = append([]string{t}, tags...)
		}
		for _, t := range tags {
			RegisterTag(t)
		}
		for _, t := range tags {
			pool := []string{t}
			for j := 1; j < len(t); j++ {
				if t[j-1] != '_' {
					pool = append(pool, t[:j]+"_*")
				}
			}
			pool = append(pool, t+"_*")
			subs := subsetsUpTo(pool, 2)
			for _, s1 := range subs {
				for _, s2 := range subs {
					for root := 0; root <= 1; root++ {
						c := c02Config{root: root, loggers: [][]string{s1, s2}}
						want, lists := c.expect()
						if want != "" {
							continue
						}
						err := Refresh(c.data())
						if err != nil {
							Destroy()
							continue
						}
						rootName := "<built-in>"
						if root == 1 {
							rootName = "root"
						}
						for name, tag := range tagRegistry {
							got := "<built-in>"
							if l := getLogger(tag); l != defaultLogger {
								got = l.GetName()
							}
							if w := refRoute(name, lists, rootName); got != w {
								fmt.Printf("REPLAY: confirmed tag %q is served by logger %s, the most specific configured logger is %s; configuration: %s\n", name, got, w, c)
								Destroy()
								return
							}
						}
						Destroy()
					}
				}
			}
		}
		fmt.Println("REPLAY: not-reproduced")
	}
}

// replay of a failed obligation of Refresh's initAppenderRefs closure: every registered logger class is
// instantiated from a minimal configuration through the real Refresh.
func init() {
	replayers["Refresh/initAppenderRefs"] = func(in map[string]any) {
		var out bytes.Buffer
		save := Stdout
		Stdout = &out
		defer func() { Stdout = save }()
		dir, err := os.MkdirTemp("", "govc-replay-")
		if err != nil {
			fmt.Println("REPLAY: not-reproduced (no scratch directory)")
			return
		}
		defer os.RemoveAll(dir)
		if wd, err := os.Getwd(); err == nil {
			defer os.Chdir(wd)
		}
		os.Chdir(dir)
		var names []string
		for n := range pluginRegistry[PluginTypeLogger] {
			names = append(names, n)
		}
		sort.Strings(names)
		for _, n := range names {
			cfg := map[string]string{
				"appender.console.type":           "Console",
				"logger.myLogger.type":            "Logger",
				"logger.myLogger.tags":            "_replayx_*",
				"logger.myLogger.appenderRef.ref": "console",
				"logger.lx.type":                  n,
				"logger.lx.tags":                  "_replayy_*",
				"logger.lx.appenderRef.ref":       "console",
				"logger.lx.fileDir":               dir,
				"logger.lx.fileName":              "replay.log",
				"logger.lx.rotation":              "1h",
			}
			msg := func() (msg string) {
				defer func() {
					if r := recover(); r != nil {
						msg = fmt.Sprintf("Refresh panics for a logger of registered type %q: %v", n, r)
					}
				}()
				Destroy()
				if err := Refresh(cfg); err != nil {
					return ""
				}
				return ""
			}()
			func() {
				defer func() { recover() }()
				Destroy()
			}()
			global.init = false
			if msg != "" {
				fmt.Println("REPLAY: confirmed", msg)
				return
			}
		}
		fmt.Println("REPLAY: not-reproduced")
	}
}

// ---------------------------------------------------------------------------------------------------
// C15, bounded: the real Refresh over a grammar of configurations

type c15Run struct {
	cases, distinct int
	seen            map[string]bool
	violations      int
}

func (r *c15Run) fail(what string, cfg map[string]string) {
	r.violations++
	if r.violations <= 4 {
		var ks []string
		for k := range cfg {
			ks = append(ks, k)
		}
		sort.Strings(ks)
		var sb strings.Builder
		for _, k := range ks {
			fmt.Fprintf(&sb, "%s=%q ", k, cfg[k])
		}
		fmt.Printf("BOUNDED-VIOLATION: %s; configuration: %s\n", what, sb.String())
	}
}

// refresh runs the real Refresh, turning a panic into a string; the system is destroyed afterwards by the caller
func (r *c15Run) refresh(cfg map[string]string) (err error, panicked string) {
	r.cases++
	defer func() {
		if p := recover(); p != nil {
			panicked = fmt.Sprint(p)
			global.init = true
		}
	}()
	return Refresh(cfg), ""
}

func (r *c15Run) done() {
	defer func() { recover() }()
	Destroy()
}

func (r *c15Run) outcome(k string) {
	if !r.seen[k] {
		r.seen[k] = true
		r.distinct++
	}
}

func cloneCfg(m map[string]string) map[string]string {
	n := map[string]string{}
	for k, v := range m {
		n[k] = v
	}
	return n
}

func c15Base(dir string) map[string]string {
	return map[string]string{
		"appender.console.type":  "Console",
		"appender.file.type":     "File",
		"appender.file.fileDir":  dir,
		"appender.file.fileName": "a.log",
		"appender.roll.type":     "RollingFile",
		"appender.roll.fileDir":  dir,
		"appender.roll.fileName": "r.log",
		"appender.roll.rotation": "h",
		"appender.roll.maxAge":   "24",
		"appender.null.type":     "Discard",

		"logger.root.type":            "Logger",
		"logger.root.level":           "info",
		"logger.root.appenderRef.ref": "console",

		"logger.myLogger.type":                 "AsyncLogger",
		"logger.myLogger.tags":                 "_replayx_*",
		"logger.myLogger.bufferSize":           "160",
		"logger.myLogger.appenderRef[0].ref":   "file",
		"logger.myLogger.appenderRef[1].ref":   "console",
		"logger.myLogger.appenderRef[1].level": "warn~error",
	}
}

func findLogger(name string) Logger {
	for _, l := range global.loggers {
		if l.GetName() == name {
			return l
		}
	}
	return nil
}

func TestGovcBounded_C15(t *testing.T) {
	if os.Getenv("GOVC_BOUNDED") == "" {
		t.Skip("no bounded run requested")
	}
	thorough := os.Getenv("GOVC_BOUNDED") == "thorough"
	var out bytes.Buffer
	save := Stdout
	Stdout = &out
	defer func() { Stdout = save }()
	dir, err := os.MkdirTemp("", "govc-bounded-")
	if err != nil {
		fmt.Println("BOUNDED-VIOLATION: no scratch directory")
		return
	}
	defer os.RemoveAll(dir)
	// configurations without fileDir fall back to ./logs: keep every file inside the scratch directory
	if wd, err := os.Getwd(); err == nil {
		defer os.Chdir(wd)
	}
	if err := os.Chdir(dir); err != nil {
		fmt.Println("BOUNDED-VIOLATION: cannot enter the scratch directory")
		return
	}
	saveCap := BufferCap.Load()
	defer BufferCap.Store(saveCap)
	r := &c15Run{seen: map[string]bool{}}
	r.done()
	base := c15Base(dir)

	// (1) the base configuration is accepted and resolves as declared
	if err, p := r.refresh(base); err != nil || p != "" {
		r.fail(fmt.Sprintf("the base configuration is rejected: err=%v panic=%s", err, p), base)
	} else {
		al, _ := findLogger("myLogger").(*AsyncLogger)
		rl, _ := findLogger("root").(*SyncLogger)
		switch {
		case al == nil || rl == nil:
			r.fail("configured loggers are not instantiated with their classes", base)
		case al.BufferSize != 160:
			r.fail(fmt.Sprintf("configured bufferSize=160 resolves to %d", al.BufferSize), base)
		case al.BufferFullPolicy != BufferFullPolicyDiscard:
			r.fail(fmt.Sprintf("default bufferFullPolicy=Discard resolves to %d", al.BufferFullPolicy), base)
		case rl.Level.MinLevel != InfoLevel || rl.Level.MaxLevel != MaxLevel:
			r.fail("level=info does not resolve to [INFO, MAX)", base)
		case al.Name != "myLogger" || al.Tags != "_replayx_*":
			r.fail("name/tags do not resolve as configured", base)
		case len(al.AppenderRefs.AppenderRefs) != 2:
			r.fail("indexed appenderRef list does not resolve to two references", base)
		}
		r.outcome("base-ok")
	}
	r.done()

	// (2) every registered logger and appender class can be instantiated from configuration
	for _, typ := range []PluginType{PluginTypeAppender, PluginTypeLogger} {
		var names []string
		for n := range pluginRegistry[typ] {
			names = append(names, n)
		}
		sort.Strings(names)
		for _, n := range names {
			cfg := cloneCfg(base)
			prefix := "appender.zz"
			if typ == PluginTypeLogger {
				prefix = "logger.zz"
				cfg[prefix+".tags"] = "_bc15_*"
				cfg[prefix+".appenderRef.ref"] = "console"
			}
			cfg[prefix+".type"] = n
			cfg[prefix+".fileDir"] = dir
			cfg[prefix+".fileName"] = "zz.log"
			cfg[prefix+".rotation"] = "10m"
			cfg[prefix+".maxAge"] = "1"
			err, p := r.refresh(cfg)
			if p != "" {
				r.fail(fmt.Sprintf("Refresh panics instantiating registered %s class %q: %s", typ, n, p), cfg)
			} else if err != nil {
				r.fail(fmt.Sprintf("registered %s class %q cannot be instantiated from a complete configuration: %v", typ, n, err), cfg)
			}
			r.outcome("class:" + string(typ) + ":" + n)
			r.done()
		}
	}

	// (3) key spellings and inline sub-trees are equivalent
	type variant struct {
		name string
		edit func(cfg map[string]string)
	}
	spell := []variant{
		{"kebab", func(c map[string]string) {
			delete(c, "logger.myLogger.bufferSize")
			c["logger.myLogger.buffer-size"] = "160"
		}},
		{"snake", func(c map[string]string) {
			delete(c, "logger.myLogger.bufferSize")
			c["logger.myLogger.buffer_size"] = "160"
		}},
		{"kebab-path", func(c map[string]string) {
			delete(c, "logger.root.appenderRef.ref")
			c["logger.root.appender-ref.ref"] = "console"
		}},
		{"snake-path", func(c map[string]string) {
			delete(c, "logger.root.appenderRef.ref")
			c["logger.root.appender_ref.ref"] = "console"
		}},
		{"upper-initial", func(c map[string]string) {
			delete(c, "logger.myLogger.bufferSize")
			c["logger.myLogger.BufferSize"] = "160"
		}},
		{"inline-appender", func(c map[string]string) {
			delete(c, "appender.file.type")
			delete(c, "appender.file.fileDir")
			delete(c, "appender.file.fileName")
			c["appender.file!"] = fmt.Sprintf("File{fileDir=%q, fileName=\"a.log\"}", dir)
		}},
		{"inline-layout", func(c map[string]string) { c["appender.console.layout!"] = "TextLayout{}" }},
		{"inline-element", func(c map[string]string) {
			delete(c, "logger.root.appenderRef.ref")
			c["logger.root.appenderRef!"] = "AppenderRef{ref=console}"
		}},
		{"inline-snake-keys", func(c map[string]string) {
			delete(c, "logger.myLogger.bufferSize")
			delete(c, "logger.myLogger.type")
			delete(c, "logger.myLogger.tags")
			c["logger.myLogger!"] = "AsyncLogger{buffer_size=160, tags=\"_replayx_*\"}"
		}},
	}
	for _, v := range spell {
		cfg := cloneCfg(base)
		v.edit(cfg)
		err, p := r.refresh(cfg)
		if err != nil || p != "" {
			r.fail(fmt.Sprintf("the %s spelling of the base configuration is rejected: err=%v panic=%s", v.name, err, p), cfg)
		} else {
			al, _ := findLogger("myLogger").(*AsyncLogger)
			rl, _ := findLogger("root").(*SyncLogger)
			if al == nil || rl == nil || al.BufferSize != 160 || len(rl.AppenderRefs.AppenderRefs) != 1 || rl.AppenderRefs.AppenderRefs[0].Ref != "console" || len(al.AppenderRefs.AppenderRefs) != 2 {
				r.fail("the "+v.name+" spelling does not resolve to the same plugins as the base configuration", cfg)
			}
		}
		r.outcome("spelling:" + v.name)
		r.done()
	}

	// (4) defaults, required attributes and ${key} substitution
	{
		cfg := cloneCfg(base)
		delete(cfg, "logger.myLogger.bufferSize")
		if err, p := r.refresh(cfg); err != nil || p != "" {
			r.fail(fmt.Sprintf("a defaulted attribute makes Refresh fail: err=%v panic=%s", err, p), cfg)
		} else if al, _ := findLogger("myLogger").(*AsyncLogger); al == nil || al.BufferSize != 10000 {
			r.fail("an absent bufferSize does not take its declared default 10000", cfg)
		}
		r.outcome("default")
		r.done()
		for _, req := range []string{"appender.file.fileName", "appender.roll.rotation", "appender.roll.maxAge", "appender.roll.fileName", "logger.root.appenderRef.ref", "logger.myLogger.type", "appender.console.type"} {
			cfg := cloneCfg(base)
			delete(cfg, req)
			err, p := r.refresh(cfg)
			if p != "" {
				r.fail("Refresh panics when the required "+req+" is absent: "+p, cfg)
			} else if err == nil {
				r.fail("Refresh accepts a configuration without the required "+req, cfg)
			}
			r.outcome("required:" + req)
			r.done()
		}
		cfg = cloneCfg(base)
		cfg["logger.myLogger.bufferSize"] = "${queue-size}"
		cfg["queueSize"] = "120"
		if err, p := r.refresh(cfg); err != nil || p != "" {
			r.fail(fmt.Sprintf("${key} substitution fails: err=%v panic=%s", err, p), cfg)
		} else if al, _ := findLogger("myLogger").(*AsyncLogger); al == nil || al.BufferSize != 120 {
			r.fail("${queue-size} is not replaced by the top-level property queueSize=120", cfg)
		}
		r.outcome("subst")
		r.done()
		delete(cfg, "queueSize")
		if err, p := r.refresh(cfg); p != "" || err == nil {
			r.fail(fmt.Sprintf("a ${key} without the top-level property is not an error: err=%v panic=%s", err, p), cfg)
		}
		r.outcome("subst-missing")
		r.done()
		// an attribute that only has deeper keys is absent: it takes its default
		cfg = cloneCfg(base)
		delete(cfg, "logger.myLogger.bufferSize")
		cfg["logger.myLogger.bufferSize.extra"] = "1"
		if err, p := r.refresh(cfg); p != "" {
			r.fail("Refresh panics when an attribute name only has deeper keys: "+p, cfg)
		} else if err == nil {
			if al, _ := findLogger("myLogger").(*AsyncLogger); al == nil || al.BufferSize != 10000 {
				r.fail("an attribute that only has deeper keys does not take its declared default 10000", cfg)
			}
		}
		r.outcome("deeper-keys-only")
		r.done()
	}

	// (5) values that do not convert, unknown classes, dangling references: an error, never a panic
	bad := map[string][]string{
		"logger.myLogger.bufferSize":             {"abc", "", "1.5", "12x", "0x", "999999999999999999999999", "<nil>", "{}", "[]", "${appender}", "${logger.root}"},
		"logger.myLogger.bufferFullPolicy":       {"block", "Drop", "", "1"},
		"logger.root.level":                      {"loud", "info~", "~error", "info~loud", "~", "<nil>", "{}", "[]"},
		"logger.myLogger.appenderRef[1].level":   {"x", "warn~y"},
		"appender.roll.rotation":                 {"", "1h", "hourly", "H"},
		"appender.roll.maxAge":                   {"x", "", "1e3", "99999999999", "-99999999999", "1.0"},
		"appender.console.type":                  {"console", "Nope", ""},
		"logger.root.type":                       {"SyncLogger", "logger", ""},
		"appender.console.layout.type":           {"Nope", "textLayout"},
		"appender.console.layout.fileLineLength": {"wide", "4.5", ""},
		"logger.root.appenderRef.ref":            {"nope", "", "Console"},
		"logger.myLogger.appenderRef[0].ref":     {"missing"},
		"bufferCap":                              {"10", "KB", "1GB", "-1KB", "1.5KB", "2048MB", "4096MB", "9007199254740993MB"},
		"enableCaller":                           {"yes!", "2"},
	}
	var bkeys []string
	for k := range bad {
		bkeys = append(bkeys, k)
	}
	sort.Strings(bkeys)
	for _, k := range bkeys {
		for _, v := range bad[k] {
			cfg := cloneCfg(base)
			cfg[k] = v
			if k == "bufferCap" && v == "" || k == "enableCaller" && v == "" {
				continue
			}
			err, p := r.refresh(cfg)
			if p != "" {
				r.fail(fmt.Sprintf("Refresh panics on %s=%q: %s", k, v, p), cfg)
			} else if err == nil {
				r.fail(fmt.Sprintf("Refresh accepts %s=%q, a value that does not convert / resolve", k, v), cfg)
			}
			r.outcome("bad:" + k)
			r.done()
		}
	}

	// (6) mutations of the valid configuration: nil or an error, never a panic
	junk := []string{"", " ", "${", "${}", "${x}", "{", "}", "a{", "A{b=}", "\x00", "-1", "9223372036854775808", "true", "~", ",", "*", "_*", "a.b", "[0]", "Logger", "Console"}
	var keys []string
	for k := range base {
		keys = append(keys, k)
	}
	sort.Strings(keys)
	mutate := func(cfg map[string]string, what string) {
		_, p := r.refresh(cfg)
		if p != "" {
			r.fail("Refresh panics on a mutated configuration ("+what+"): "+p, cfg)
		}
		r.outcome("mut:" + what)
		r.done()
	}
	for _, k := range keys {
		cfg := cloneCfg(base)
		delete(cfg, k)
		mutate(cfg, "delete "+k)
		for _, j := range junk {
			cfg := cloneCfg(base)
			cfg[k] = j
			mutate(cfg, "set "+k)
			if thorough {
				cfg = cloneCfg(base)
				delete(cfg, k)
				cfg[k+"!"] = j
				mutate(cfg, "inline "+k)
				cfg = cloneCfg(base)
				cfg[k+"."+j] = j
				mutate(cfg, "extend "+k)
			}
		}
		for _, suffix := range []string{".type", "[0]", "[0].type", "[1].ref", ".layout.type", "!", ".x!", "."} {
			for _, j := range []string{"Console", "TextLayout", "AppenderRef", "Nope", "{", "Console{}", "Console{layout=TextLayout{}}"} {
				cfg := cloneCfg(base)
				cfg[k+suffix] = j
				mutate(cfg, "add "+k+suffix)
			}
		}
	}
	if thorough {
		// pairs of deletions
		for i, k1 := range keys {
			for _, k2 := range keys[i+1:] {
				cfg := cloneCfg(base)
				delete(cfg, k1)
				delete(cfg, k2)
				mutate(cfg, "delete two")
			}
		}
	}
	fmt.Printf("BOUNDED: cases=%d distinct=%d bound=one base configuration (4 appenders, 2 loggers) x {every registered logger/appender class; 9 key spellings / inline forms; defaults, 7 required attributes, ${key}; %d ill-typed or unresolvable values over %d attributes; deletion of each of %d keys, %d junk values per key, 56 added sub-keys per key%s}; distinct counts distinct (kind, key) case classes\n",
		r.cases, r.distinct, func() int {
			n := 0
			for _, v := range bad {
				n += len(v)
			}
			return n
		}(), len(bad), len(keys), len(junk), map[bool]string{true: ", inline/extended variants, all pairs of deletions", false: ""}[thorough])
}

// ---------------------------------------------------------------------------------------------------
// C17: the expression parser

// lexItems: the alternatives of the STRING rule of Expr.g4 ( ~["\\] | '\\' ["\\/bfnrt] ) with their values
var lexItems = []struct{ src, val string }{
	{"a", "a"}, {" ", " "}, {"/", "/"}, {"=", "="}, {"{", "{"}, {"'", "'"}, {"\n", "\n"}, {"\t", "\t"}, {"\r", "\r"}, {"\u00e9", "\u00e9"}, {"$", "$"},
	{`\"`, `"`}, {`\\`, `\`}, {`\/`, "/"}, {`\b`, "\b"}, {`\f`, "\f"}, {`\n`, "\n"}, {`\r`, "\r"}, {`\t`, "\t"},
}

// searchStringLiterals runs the real Parse on T{k="<body>"} for every body of at most n items
func searchStringLiterals(n int) (cases int, bad string) {
	var rec func(src, val string, d int) bool
	rec = func(src, val string, d int) bool {
		cases++
		in := "T{k=\"" + src + "\"}"
		m, err := expr.Parse(in)
		if err != nil {
			bad = fmt.Sprintf("Parse(%q) fails on a well-formed expression (string literal the lexer admits): %v", in, firstLine(err.Error()))
			return true
		}
		if m["k"] != val || m["type"] != "T" || len(m) != 2 {
			bad = fmt.Sprintf("Parse(%q) = %q, want k=%q", in, m, val)
			return true
		}
		if d == 0 {
			return false
		}
		for _, it := range lexItems {
			if rec(src+it.src, val+it.val, d-1) {
				return true
			}
		}
		return false
	}
	rec("", "", n)
	return
}

func firstLine(s string) string {
	if i := strings.IndexByte(s, '\n'); i >= 0 {
		return s[:i]
	}
	return s
}

func init() {
	replayers["(*expr.ParseTreeListener).parseInnerExpr"] = func(in map[string]any) {
		if _, bad := searchStringLiterals(2); bad != "" {
			fmt.Println("REPLAY: confirmed (bounded search: string bodies of at most 2 lexer items)", bad)
			return
		}
		fmt.Println("REPLAY: not-reproduced")
	}
}

// c17Gen generates well-formed expressions together with the map the statement of C17 assigns to them.
type c17Gen struct {
	seed uint64
}

func (g *c17Gen) next(n int) int {
	// xorshift64*: deterministic, seeded by VERIF_SEED
	g.seed ^= g.seed >> 12
	g.seed ^= g.seed << 25
	g.seed ^= g.seed >> 27
	return int((g.seed * 2685821657736338717) >> 33 % uint64(n))
}

func (g *c17Gen) ws() string {
	return []string{"", "", " ", "  ", "\n", "\t ", " \r\n "}[g.next(7)]
}

func (g *c17Gen) scalar() (src, val string) {
	switch g.next(4) {
	case 0:
		v := []string{"x", "true", "info", "_a1", "Z9_", "stdout"}[g.next(6)]
		return v, v
	case 1:
		n := g.next(4)
		for i := 0; i < n; i++ {
			it := lexItems[g.next(len(lexItems))]
			src += it.src
			val += it.val
		}
		return "\"" + src + "\"", val
	case 2:
		v := []string{"42", "-17", "+5", "0", "0x1F", "0xabc", "007"}[g.next(7)]
		return v, v
	}
	v := []string{"3.14", "-0.5", "+2E10", ".25e-2", "1e5", "10.0E+3", "-.5"}[g.next(7)]
	return v, v
}

func (g *c17Gen) path() string {
	p := []string{"a", "b", "level", "file_name", "type", "A"}[g.next(6)]
	for n := g.next(3); n > 0; n-- {
		if g.next(2) == 0 {
			p += g.ws() + "." + g.ws() + []string{"c", "d", "out", "type"}[g.next(4)]
		} else {
			p += g.ws() + "[" + g.ws() + []string{"0", "1", "12"}[g.next(3)] + g.ws() + "]"
		}
	}
	return p
}

func stripWS(s string) string {
	return strings.NewReplacer(" ", "", "\n", "", "\t", "", "\r", "").Replace(s)
}

// expr renders one expression below key prefix, adding its entries to want in source order
func (g *c17Gen) expr(prefix string, depth int, want map[string]string) string {
	typ := []string{"T", "Logger", "File_1", "a"}[g.next(4)]
	if prefix == "" {
		want["type"] = typ
	} else {
		want[prefix+".type"] = typ
	}
	src := typ + g.ws() + "{" + g.ws()
	n := g.next(4)
	for i := 0; i < n; i++ {
		p := g.path()
		key := stripWS(p)
		if prefix != "" {
			key = prefix + "." + key
		}
		src += p + g.ws() + "=" + g.ws()
		if depth > 0 && g.next(3) == 0 {
			src += g.expr(key, depth-1, want)
		} else {
			s, v := g.scalar()
			src += s
			want[key] = v
		}
		src += g.ws()
		if i+1 < n || g.next(2) == 0 {
			src += "," + g.ws()
		}
	}
	return src + "}"
}

func TestGovcBounded_C17(t *testing.T) {
	if os.Getenv("GOVC_BOUNDED") == "" {
		t.Skip("no bounded run requested")
	}
	thorough := os.Getenv("GOVC_BOUNDED") == "thorough"
	cases, violations := 0, 0
	distinct := map[string]bool{}
	fail := func(what string) {
		violations++
		if violations <= 4 {
			fmt.Println("BOUNDED-VIOLATION:", what)
		}
	}
	// parse with the totality oracle: a map and no error, or an error and no map; never a panic
	parse := func(in string) (m map[string]string, err error, ok bool) {
		cases++
		defer func() {
			if p := recover(); p != nil {
				fail(fmt.Sprintf("Parse(%q) panics: %v", in, p))
				ok = false
			}
		}()
		m, err = expr.Parse(in)
		switch {
		case err != nil && m != nil:
			fail(fmt.Sprintf("Parse(%q) returns both a map and an error", in))
			return m, err, false
		case err == nil && m == nil && strings.TrimSpace(in) != "":
			fail(fmt.Sprintf("Parse(%q) returns neither a map nor an error", in))
			return m, err, false
		}
		return m, err, true
	}

	// (1) string literals: every body of at most 3 (thorough: 4) lexer items
	depth := 3
	if thorough {
		depth = 4
	}
	n, bad := searchStringLiterals(depth)
	cases += n
	if bad != "" {
		fail(bad)
	}
	distinct["string-literals"] = true

	// (2) generated well-formed expressions against the reference flattening
	seed := uint64(88172645463325252)
	if s := os.Getenv("VERIF_SEED"); s != "" {
		var v uint64
		fmt.Sscan(s, &v)
		seed ^= v * 0x9E3779B97F4A7C15
	}
	g := &c17Gen{seed: seed}
	gen := 4000
	if thorough {
		gen = 60000
	}
	var valid []string
	for i := 0; i < gen; i++ {
		want := map[string]string{}
		pre, post := g.ws(), g.ws()
		src := pre + g.expr("", 1+g.next(5), want) + post
		m, err, ok := parse(src)
		if !ok {
			continue
		}
		if err != nil {
			fail(fmt.Sprintf("Parse(%q) fails on a well-formed expression: %s", src, firstLine(err.Error())))
			continue
		}
		if len(m) != len(want) {
			fail(fmt.Sprintf("Parse(%q) = %q, want %q", src, m, want))
			continue
		}
		for k, v := range want {
			if got, has := m[k]; !has || got != v {
				fail(fmt.Sprintf("Parse(%q): key %q is %q (present=%v), want %q", src, k, got, has, v))
				break
			}
		}
		distinct[fmt.Sprintf("shape:%d", len(want))] = true
		if i < 400 {
			valid = append(valid, src)
		}
	}

	// (3) totality: every string over a token alphabet up to length L, and mutations of valid expressions
	alpha := []string{"T", "{", "}", "a", "=", ",", ".", "\"", "\\", "0", "[", "]", " ", "-", "x", "'", "\n", "e"}
	L := 4
	if thorough {
		L = 5
	}
	var rec func(s string, d int)
	rec = func(s string, d int) {
		parse(s)
		if d == 0 {
			return
		}
		for _, a := range alpha {
			rec(s+a, d-1)
		}
	}
	rec("", L)
	distinct["exhaustive-short-inputs"] = true
	junk := []string{"", "{", "}", "\"", "\\", "=", ",", "[", "]", ".", "\x00", "\xff", "'", "0x", "1e", "T{", "\"}", "é", "\U0001F600", "/*", "//", "${a}"}
	for _, v := range valid {
		for pos := 0; pos <= len(v); pos += 1 + len(v)/24 {
			for _, j := range junk {
				parse(v[:pos] + j + v[pos:]) // insertion
				if pos < len(v) {
					parse(v[:pos] + j + v[pos+1:]) // replacement
				}
			}
			parse(v[:pos]) // truncation
		}
	}
	distinct["mutations"] = true
	// long inputs (64 KiB): deep nesting and long tokens
	for _, big := range []string{
		strings.Repeat("T{a=", 2000) + "x" + strings.Repeat("}", 2000),
		strings.Repeat("T{a=", 2000),
		"T{a=\"" + strings.Repeat("\\/", 30000) + "\"}",
		"T{" + strings.Repeat("a=1,", 16000) + "}",
		strings.Repeat("{", 65536),
		"T{a" + strings.Repeat("[0]", 20000) + "=1}",
	} {
		parse(big)
	}
	distinct["long-inputs"] = true
	fmt.Printf("BOUNDED: cases=%d distinct=%d bound=string literals of at most %d lexer items (all 19 alternatives of the STRING rule); %d generated well-formed expressions (nesting <= 6, all literal kinds, dotted/indexed paths, duplicate keys, arbitrary token spacing, optional trailing comma) against a reference flattening; totality on every string of length <= %d over an 18-symbol alphabet, on insert/replace/truncate mutations of 400 valid expressions with 22 junk fragments, and on 6 inputs of up to 64 KiB; distinct counts case classes\n",
		cases, len(distinct), depth, gen, L)
}

// ---------------------------------------------------------------------------------------------------
// The state package initialisation leaves behind.  Package initialisation takes no input, so running
// it once (this test binary has just done so) is an exhaustive check of these facts; they are the
// base case of the lifecycle invariants the contracts of the entry points, Refresh and Destroy assume
// (`requires`) and keep, and they back the axioms of the contract file about package variables.
// NOTE: the test binary also runs the init functions of the repository's own _test files, which may
// register further tags, handles and plugins; the facts below are stable under such registrations.

type initialFact struct {
	name  string
	props string
	check func() string
}

func TestGovcInitial(t *testing.T) {
	if os.Getenv("GOVC_INITIAL") == "" {
		t.Skip("no initial-state check requested")
	}
	facts := []initialFact{
		{"the-fallback-logger-takes-every-level", "C01,C10,C16", func() string {
			cl, ok := defaultLogger.(*ConsoleLogger)
			if !ok || cl == nil {
				return fmt.Sprintf("defaultLogger is %T, want a non-nil *ConsoleLogger", defaultLogger)
			}
			if cl.Level.MinLevel != NoneLevel || cl.Level.MaxLevel != MaxLevel {
				return fmt.Sprintf("the built-in console logger's range is [%s, %s), want [NONE, MAX): levels outside it are dropped when no configuration is live", cl.Level.MinLevel.Name(), cl.Level.MaxLevel.Name())
			}
			if cl.ConsoleAppender.Layout == nil {
				return "the built-in console logger has no layout"
			}
			return ""
		}},
		{"built-in-levels", "C01", func() string {
			want := []struct {
				l    Level
				code int32
				name string
			}{{NoneLevel, 0, "NONE"}, {TraceLevel, 100, "TRACE"}, {DebugLevel, 200, "DEBUG"}, {InfoLevel, 300, "INFO"}, {WarnLevel, 400, "WARN"},
				{ErrorLevel, 500, "ERROR"}, {PanicLevel, 600, "PANIC"}, {FatalLevel, 700, "FATAL"}, {MaxLevel, 999, "MAX"}}
			if levelRegistry == nil {
				return "levelRegistry is nil"
			}
			for i, w := range want {
				if w.l.code != w.code || w.l.name != w.name {
					return fmt.Sprintf("built-in level %s has code %d name %q", w.name, w.l.code, w.l.name)
				}
				if r, ok := levelRegistry[w.name]; !ok || r != w.l {
					return fmt.Sprintf("built-in level %s is not registered under its name", w.name)
				}
				if i > 0 && want[i-1].code >= w.code {
					return "built-in level codes are not increasing"
				}
			}
			return ""
		}},
		{"registries-well-formed", "C02,C12,C16,C18", func() string {
			if tagRegistry == nil || loggerMap == nil {
				return "a registry is nil"
			}
			for k, tg := range tagRegistry {
				if tg == nil || tg.tag != k {
					return fmt.Sprintf("tag registry entry %q is nil or registered under another name", k)
				}
			}
			for k, w := range loggerMap {
				if w == nil || w.name != k {
					return fmt.Sprintf("handle registry entry %q is nil or registered under another name", k)
				}
			}
			if global.init || len(global.loggers) != 0 || len(global.appenders) != 0 {
				return "the library starts with a live configuration"
			}
			return ""
		}},
		{"no-binding-before-the-first-refresh", "C16", func() string {
			for k, tg := range tagRegistry {
				if tg.logger != nil {
					return fmt.Sprintf("tag %q is bound before any Refresh", k)
				}
			}
			for k, w := range loggerMap {
				if w.logger != nil {
					return fmt.Sprintf("handle %q is bound before any Refresh", k)
				}
			}
			return ""
		}},
		{"property-setters-and-tables", "C15,C11", func() string {
			if propertyRegistry == nil || typeConverters == nil || timeRotationRegistration == nil || bytesSizeTable == nil {
				return "a configuration table is nil"
			}
			for k, f := range propertyRegistry {
				if f == nil {
					return fmt.Sprintf("property %q has no setter", k)
				}
			}
			for _, k := range []string{"enableCaller", "fastCaller", "bufferCap"} {
				if propertyRegistry[k] == nil {
					return fmt.Sprintf("property %q is not registered", k)
				}
			}
			for u, m := range bytesSizeTable {
				if m < 1 {
					return fmt.Sprintf("size unit %q has multiplier %d", u, m)
				}
			}
			if !enableCaller || fastCaller {
				return "caller lookup does not start enabled in default mode"
			}
			return ""
		}},
		{"registered-plugin-classes", "C15", func() string {
			for typ, names := range map[PluginType][]string{
				PluginTypeAppender: {"Discard", "Console", "File", "RollingFile"},
				PluginTypeLogger:   {"Logger", "AsyncLogger", "Discard", "Console", "File", "RollingFile"},
				PluginTypeLayout:   {"TextLayout", "JSONLayout"},
			} {
				for _, n := range names {
					if p := pluginRegistry[typ][n]; p == nil || p.Class == nil {
						return fmt.Sprintf("%s class %q is not registered", typ, n)
					}
				}
			}
			return ""
		}},
		{"caller-switch-keys-drive-their-own-switch", "C11,C15", func() string {
			// which setter init() registered under which key (the setters themselves, for every string, are
			// under contract as RegisterProperty(enableCaller) / RegisterProperty(fastCaller)); executed for
			// the two boolean values, the switches are restored afterwards
			e0, f0 := enableCaller, fastCaller
			defer func() { enableCaller, fastCaller = e0, f0 }()
			for _, v := range []bool{false, true} {
				for _, w := range []bool{false, true} {
					enableCaller, fastCaller = w, w
					if set := propertyRegistry["fastCaller"]; set == nil || set(fmt.Sprint(v)) != nil || fastCaller != v || enableCaller != w {
						return fmt.Sprintf("fastCaller=%v (both switches %v before) leaves enableCaller=%v fastCaller=%v", v, w, enableCaller, fastCaller)
					}
					enableCaller, fastCaller = w, w
					if set := propertyRegistry["enableCaller"]; set == nil || set(fmt.Sprint(v)) != nil || enableCaller != v || fastCaller != w {
						return fmt.Sprintf("enableCaller=%v (both switches %v before) leaves enableCaller=%v fastCaller=%v", v, w, enableCaller, fastCaller)
					}
				}
			}
			return ""
		}},
		{"plugin-classes-are-well-formed", "C15,C16", func() string {
			// what Refresh, NewPlugin, inject and injectElement require of the registry (pluginsWF,
			// classesImplement, classWF) holds of every class this package registers
			if pluginRegistry == nil || typeConverters == nil {
				return "the plugin registry or the converter table is nil"
			}
			ifaceOf := map[PluginType]reflect.Type{
				PluginTypeAppender: reflect.TypeFor[Appender](),
				PluginTypeLogger:   reflect.TypeFor[Logger](),
			}
			var wf func(t reflect.Type, path string) string
			wf = func(t reflect.Type, path string) string {
				if t == nil || t.Kind() != reflect.Struct {
					return path + " is not a struct type"
				}
				for i := 0; i < t.NumField(); i++ {
					ft := t.Field(i)
					if tag, ok := ft.Tag.Lookup("PluginAttribute"); ok {
						if PluginTag(tag).Get("") == "name" && ft.Type.Kind() != reflect.String {
							return fmt.Sprintf("%s.%s: a name attribute that is not a string", path, ft.Name)
						}
						if !ft.IsExported() {
							return fmt.Sprintf("%s.%s: an attribute that cannot be set", path, ft.Name)
						}
						continue
					}
					if tag, ok := ft.Tag.Lookup("PluginElement"); ok {
						kind, _ := strings.CutSuffix(PluginTag(tag).Get(""), "?")
						target := ft.Type
						if ft.Type.Kind() == reflect.Slice {
							target = ft.Type.Elem()
						} else if ft.Type.Kind() != reflect.Interface {
							return fmt.Sprintf("%s.%s: an element that is neither a list nor an interface", path, ft.Name)
						}
						for n, p := range pluginRegistry[PluginType(toCamelKey(kind))] {
							if !reflect.PointerTo(p.Class).AssignableTo(target) {
								return fmt.Sprintf("%s.%s: registered %s class %q cannot be assigned to the field", path, ft.Name, kind, n)
							}
						}
						continue
					}
					if ft.Anonymous && ft.Type.Kind() == reflect.Struct {
						if msg := wf(ft.Type, path+"."+ft.Name); msg != "" {
							return msg
						}
					}
				}
				return ""
			}
			for typ, m := range pluginRegistry {
				for n, p := range m {
					if p == nil || p.Class == nil {
						return fmt.Sprintf("%s class %q has no class", typ, n)
					}
					if it, ok := ifaceOf[typ]; ok && !reflect.PointerTo(p.Class).Implements(it) {
						return fmt.Sprintf("%s class %q does not implement its kind", typ, n)
					}
					if msg := wf(p.Class, string(typ)+":"+n); msg != "" {
						return msg
					}
				}
			}
			return ""
		}},
	}
	for _, f := range facts {
		if msg := f.check(); msg != "" {
			fmt.Printf("INITIAL-VIOLATION %s [%s]: %s\n", f.name, f.props, msg)
		} else {
			fmt.Printf("INITIAL-OK %s [%s]\n", f.name, f.props)
		}
	}
}
