package log

import (
	"context"
	"runtime"
	"time"
)

func timeNowMinusHours(h int) time.Time { return time.Now().Add(-time.Duration(h) * time.Hour) }

func runtimeCaller(skip int) (uintptr, string, int, bool) { return runtime.Caller(skip + 1) }
func t0ctx() context.Context                               { return context.Background() }
