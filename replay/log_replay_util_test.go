package log

import (
	"context"
	"math"
	"runtime"
	"time"
)

func mathFloat64frombits(b uint64) float64 { return math.Float64frombits(b) }
func mathNaN() float64                     { return math.NaN() }
func mathInf(s int) float64                { return math.Inf(s) }

func timeNowMinusHours(h int) time.Time { return time.Now().Add(-time.Duration(h) * time.Hour) }

func runtimeCaller(skip int) (uintptr, string, int, bool) { return runtime.Caller(skip + 1) }
func t0ctx() context.Context                               { return context.Background() }
