package log

import (
	"context"
	"runtime"
)

func runtimeCaller(skip int) (uintptr, string, int, bool) { return runtime.Caller(skip + 1) }
func t0ctx() context.Context                               { return context.Background() }
