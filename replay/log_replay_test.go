package log

// Replay harness of /verif (govc).  It is never part of the repository: the
// check injects it into the package with `go test -overlay`.  It reads the
// inputs the SMT solver produced for a failed obligation, runs the REAL
// function on them and evaluates an oracle written from the property
// statement.  "REPLAY: confirmed" means the real code violates the property on
// that input.

import (
	"bytes"
	"encoding/json"
	"fmt"
	"math/big"
	"os"
	"path/filepath"
	"strings"
	"testing"
	"time"
	"unicode/utf8"
)

type replayIn struct {
	Function string         `json:"function"`
	Inputs   map[string]any `json:"inputs"`
}

func rBytes(v any) string {
	arr, ok := v.([]any)
	if !ok {
		return ""
	}
	b := make([]byte, len(arr))
	for i, x := range arr {
		f, _ := x.(float64)
		b[i] = byte(int(f))
	}
	return string(b)
}

func rInt(v any) int {
	f, _ := v.(float64)
	return int(f)
}

// escapeOracle: out must be the body of one RFC 8259 string that decodes to s
// with each invalid UTF-8 byte replaced by U+FFFD, contain no raw control
// character or quote, and be valid UTF-8.
func escapeOracle(s, out string) string {
	for i := 0; i < len(out); i++ {
		if out[i] < 0x20 {
			return fmt.Sprintf("raw control byte 0x%02x in output %q", out[i], out)
		}
	}
	if !utf8.ValidString(out) {
		return fmt.Sprintf("output %q is not valid UTF-8", out)
	}
	var dec string
	if err := json.Unmarshal([]byte(`"`+out+`"`), &dec); err != nil {
		return fmt.Sprintf("output %q is not a JSON string body: %v", out, err)
	}
	want := strings.ToValidUTF8(s, "�")
	// ToValidUTF8 collapses runs of invalid bytes; the property replaces each byte
	var sb strings.Builder
	for i := 0; i < len(s); {
		r, size := utf8.DecodeRuneInString(s[i:])
		if r == utf8.RuneError && size == 1 {
			sb.WriteRune(utf8.RuneError)
		} else {
			sb.WriteString(s[i : i+size])
		}
		i += size
	}
	want = sb.String()
	if dec != want {
		return fmt.Sprintf("input %q decodes to %q, want %q", s, dec, want)
	}
	return ""
}

// searchEscape looks for a failing input near the model's input (bounded).
func searchEscape(seed string) (string, string) {
	try := func(s string) string {
		var buf bytes.Buffer
		func() {
			defer func() {
				if r := recover(); r != nil {
					buf.Reset()
					buf.WriteString(fmt.Sprintf("\x00panic: %v", r))
				}
			}()
			WriteLogString(&buf, s)
		}()
		return escapeOracle(s, buf.String())
	}
	if seed != "" {
		if msg := try(seed); msg != "" {
			return seed, msg
		}
	}
	// all strings of length 1 and 2 over every byte value, then a few 3/4-byte shapes
	for a := 0; a < 256; a++ {
		if msg := try(string([]byte{byte(a)})); msg != "" {
			return string([]byte{byte(a)}), msg
		}
	}
	for a := 0; a < 256; a++ {
		for b := 0; b < 256; b++ {
			s := string([]byte{byte(a), byte(b)})
			if msg := try(s); msg != "" {
				return s, msg
			}
		}
	}
	for _, s := range []string{"\xe4\xb8\xad", "a\xe4\xb8\xadb", "\xf0\x9f\x98\x80", "x\xf0\x9f\x98\x80y", "\xed\xa0\x80", "\xe4\xb8", "\xf0\x9f\x98"} {
		if msg := try(s); msg != "" {
			return s, msg
		}
	}
	return "", ""
}

func TestGovcReplay(t *testing.T) {
	path := os.Getenv("GOVC_REPLAY")
	if path == "" {
		t.Skip("no replay requested")
	}
	raw, err := os.ReadFile(path)
	if err != nil {
		t.Fatal(err)
	}
	var in replayIn
	if err := json.Unmarshal(raw, &in); err != nil {
		t.Fatal(err)
	}
	defer func() {
		if r := recover(); r != nil {
			fmt.Printf("REPLAY: confirmed %s panics on the model's input: %v\n", in.Function, r)
		}
	}()
	if f, ok := replayers[in.Function]; ok {
		f(in.Inputs)
		return
	}
	fmt.Println("REPLAY: no-adaptor for", in.Function)
}

var replayers = map[string]func(map[string]any){
	"tryAddRuneSelf": func(in map[string]any) {
		b := byte(rInt(in["b"]))
		check := func(b byte) string {
			var buf bytes.Buffer
			ok := tryAddRuneSelf(&buf, b)
			if ok != (b < 0x80) {
				return fmt.Sprintf("tryAddRuneSelf(%#x) returned %v", b, ok)
			}
			if !ok {
				if buf.Len() != 0 {
					return fmt.Sprintf("tryAddRuneSelf(%#x) wrote %q but returned false", b, buf.String())
				}
				return ""
			}
			return escapeOracle(string([]byte{b}), buf.String())
		}
		if msg := check(b); msg != "" {
			fmt.Printf("REPLAY: confirmed b=%#x: %s\n", b, msg)
			return
		}
		for x := 0; x < 256; x++ {
			if msg := check(byte(x)); msg != "" {
				fmt.Printf("REPLAY: confirmed (bounded search over all 256 bytes) b=%#x: %s\n", x, msg)
				return
			}
		}
		fmt.Println("REPLAY: not-reproduced")
	},
	"tryAddRuneError": func(in map[string]any) {
		check := func(r rune, size int) string {
			var buf bytes.Buffer
			ok := tryAddRuneError(&buf, r, size)
			if ok != (r == utf8.RuneError && size == 1) {
				return fmt.Sprintf("tryAddRuneError(%#x,%d) returned %v", r, size, ok)
			}
			if ok {
				return escapeOracle("\xff", buf.String())
			}
			if buf.Len() != 0 {
				return "wrote although it returned false"
			}
			return ""
		}
		r, size := rune(rInt(in["r"])), rInt(in["size"])
		if msg := check(r, size); msg != "" {
			fmt.Printf("REPLAY: confirmed r=%#x size=%d: %s\n", r, size, msg)
			return
		}
		for _, r := range []rune{utf8.RuneError, 'a', 0x4e2d} {
			for size := 0; size <= 4; size++ {
				if msg := check(r, size); msg != "" {
					fmt.Printf("REPLAY: confirmed (bounded search) r=%#x size=%d: %s\n", r, size, msg)
					return
				}
			}
		}
		fmt.Println("REPLAY: not-reproduced")
	},
	"WriteLogString": func(in map[string]any) {
		s := rBytes(in["s"])
		if bad, msg := searchEscape(s); msg != "" {
			how := "model input"
			if bad != s {
				how = "bounded search (all strings of length <= 2 plus multi-byte shapes)"
			}
			fmt.Printf("REPLAY: confirmed (%s) s=%q: %s\n", how, bad, msg)
			return
		}
		fmt.Println("REPLAY: not-reproduced")
	},
}

func init() {
	replayers["(*BaseLayout).GetFileLine"] = func(in map[string]any) {
		oracle := func(W int, file string, line int) string {
			fl := fmt.Sprintf("%s:%d", file, line)
			want := fl
			if len(fl) > W {
				keep := W - 3
				if keep < 0 {
					keep = 0
				}
				want = "..." + fl[len(fl)-keep:]
			}
			var got string
			var pan any
			func() {
				defer func() { pan = recover() }()
				got = (&BaseLayout{FileLineLength: W}).GetFileLine(&Event{File: file, Line: line})
			}()
			if pan != nil {
				return fmt.Sprintf("GetFileLine panics: %v", pan)
			}
			if got != want {
				return fmt.Sprintf("GetFileLine = %q, want %q", got, want)
			}
			return ""
		}
		W, file, line := rInt(in["W"]), rBytes(in["file"]), rInt(in["line"])
		if msg := oracle(W, file, line); msg != "" {
			fmt.Printf("REPLAY: confirmed W=%d file=%q line=%d: %s\n", W, file, line, msg)
			return
		}
		for W := -5; W <= 60; W++ {
			for _, f := range []string{"", "a.go", "file.go", strings.Repeat("d/", 30) + "x.go"} {
				for _, l := range []int{0, 7, 12345} {
					if msg := oracle(W, f, l); msg != "" {
						fmt.Printf("REPLAY: confirmed (bounded search W in -5..60) W=%d file=%q line=%d: %s\n", W, f, l, msg)
						return
					}
				}
			}
		}
		fmt.Println("REPLAY: not-reproduced")
	}
}

// captureLogger records the events handed to Append (a Logger for replay purposes).
type captureLogger struct {
	LoggerBase
	events []Event
	raws   [][]byte
}

func (c *captureLogger) Start() error    { return nil }
func (c *captureLogger) Stop()           {}
func (c *captureLogger) GetName() string { return "capture" }
func (c *captureLogger) Append(e *Event) { c.events = append(c.events, *e) }
func (c *captureLogger) Write(b []byte)  { c.raws = append(c.raws, append([]byte(nil), b...)) }

func replayCallerLine() (string, int) {
	_, file, line, _ := runtimeCaller(1)
	return file, line
}

func init() {
	replayers["record"] = func(in map[string]any) {
		saveE, saveF := enableCaller, fastCaller
		defer func() { enableCaller, fastCaller = saveE, saveF }()
		for _, fast := range []bool{false, true} {
			enableCaller, fastCaller = true, fast
			cl := &captureLogger{LoggerBase: LoggerBase{Level: LevelRange{MinLevel: NoneLevel, MaxLevel: MaxLevel}}}
			tag := &Tag{tag: "_replay_tag", logger: cl}
			wantFile, wantLine := replayCallerLine()
			Info(t0ctx(), tag, Msg("x")) // must stay on the line after replayCallerLine
			wantLine++
			if len(cl.events) != 1 {
				fmt.Printf("REPLAY: confirmed fastCaller=%v: Info delivered %d events, want 1\n", fast, len(cl.events))
				return
			}
			if e := cl.events[0]; e.File != wantFile || e.Line != wantLine {
				fmt.Printf("REPLAY: confirmed fastCaller=%v: event reports %s:%d, the log call is at %s:%d\n", fast, e.File, e.Line, wantFile, wantLine)
				return
			}
			if e := cl.events[0]; e.Level != InfoLevel || e.Tag != "_replay_tag" {
				fmt.Printf("REPLAY: confirmed fastCaller=%v: event level/tag %v %q\n", fast, e.Level, e.Tag)
				return
			}
		}
		fmt.Println("REPLAY: not-reproduced")
	}
}

// recAppender records what reaches an appender.
type recAppender struct {
	AppenderBase
	events int
	levels []Level
	raws   []string
}

func (r *recAppender) Start() error { return nil }
func (r *recAppender) Stop()        {}
func (r *recAppender) Append(e *Event) {
	r.events++
	r.levels = append(r.levels, e.Level)
}
func (r *recAppender) Write(b []byte) { r.raws = append(r.raws, string(b)) }

func init() {
	replayers["(*SyncLogger).Write"] = func(in map[string]any) {
		for _, ranges := range [][]LevelRange{
			{{NoneLevel, MaxLevel}},
			{{InfoLevel, WarnLevel}, {WarnLevel, MaxLevel}},
			{{NoneLevel, NoneLevel}},
		} {
			var apps []*recAppender
			l := &SyncLogger{LoggerBase: LoggerBase{Level: LevelRange{NoneLevel, MaxLevel}}}
			for _, r := range ranges {
				a := &recAppender{}
				apps = append(apps, a)
				l.AppenderRefs.AppenderRefs = append(l.AppenderRefs.AppenderRefs, &AppenderRef{Appender: a, Level: r})
			}
			l.Write([]byte("raw line\n"))
			for i, a := range apps {
				if len(a.raws) != 1 || a.raws[0] != "raw line\n" {
					fmt.Printf("REPLAY: confirmed SyncLogger.Write with ref ranges %v: appender %d received %q, want exactly one copy of the bytes\n", ranges, i, a.raws)
					return
				}
			}
		}
		fmt.Println("REPLAY: not-reproduced")
	}
	replayers["(*LoggerWrapper).Write"] = func(in map[string]any) {
		w := &LoggerWrapper{name: "replay"}
		var out bytes.Buffer
		save := Stdout
		Stdout = &out
		defer func() { Stdout = save }()
		n, err := w.Write([]byte("before refresh\n")) // panics when the nil logger is dereferenced
		if n != len("before refresh\n") || err != nil {
			fmt.Printf("REPLAY: confirmed LoggerWrapper.Write returned (%d, %v)\n", n, err)
			return
		}
		cl := &captureLogger{}
		w.logger = cl
		w.Write([]byte("x"))
		if len(cl.raws) != 1 || string(cl.raws[0]) != "x" {
			fmt.Printf("REPLAY: confirmed LoggerWrapper.Write forwarded %q\n", cl.raws)
			return
		}
		fmt.Println("REPLAY: not-reproduced")
	}
}

// refValidTag is the tag language of the property statement, written independently of the code:
// ^_?[a-z0-9]+(_[a-z0-9]+){0,3}$ with 3 <= len <= 36.
func refValidTag(t string) bool {
	if len(t) < 3 || len(t) > 36 {
		return false
	}
	body := strings.TrimPrefix(t, "_")
	parts := strings.Split(body, "_")
	if len(parts) < 1 || len(parts) > 4 {
		return false
	}
	for _, p := range parts {
		if p == "" {
			return false
		}
		for i := 0; i < len(p); i++ {
			c := p[i]
			if !(c >= 'a' && c <= 'z') && !(c >= '0' && c <= '9') {
				return false
			}
		}
	}
	return true
}

func init() {
	replayers["isValidTag"] = func(in map[string]any) {
		tag := rBytes(in["tag"])
		if isValidTag(tag) != refValidTag(tag) {
			fmt.Printf("REPLAY: confirmed isValidTag(%q) = %v, the documented language says %v\n", tag, isValidTag(tag), refValidTag(tag))
			return
		}
		// bounded search: all strings of length <= 7 over a small alphabet, plus long segment compositions
		alpha := []byte{'a', '0', '_', '-', 'A', 'z'}
		var rec func(prefix []byte, n int) bool
		rec = func(prefix []byte, n int) bool {
			if isValidTag(string(prefix)) != refValidTag(string(prefix)) {
				fmt.Printf("REPLAY: confirmed (bounded search, length <= 7 over %q) isValidTag(%q) = %v, want %v\n", alpha, prefix, isValidTag(string(prefix)), refValidTag(string(prefix)))
				return true
			}
			if n == 0 {
				return false
			}
			for _, c := range alpha {
				if rec(append(prefix, c), n-1) {
					return true
				}
			}
			return false
		}
		if rec(nil, 7) {
			return
		}
		for segs := 1; segs <= 6; segs++ {
			for _, lead := range []string{"", "_"} {
				for total := 30; total <= 38; total++ {
					t := lead + strings.Repeat("ab_", segs-1)
					if len(t) < total {
						t += strings.Repeat("c", total-len(t))
					}
					if isValidTag(t) != refValidTag(t) {
						fmt.Printf("REPLAY: confirmed (bounded search) isValidTag(%q) = %v, want %v\n", t, isValidTag(t), refValidTag(t))
						return
					}
				}
			}
		}
		fmt.Println("REPLAY: not-reproduced")
	}
}

func replayConfig() map[string]string {
	return map[string]string{
		"appender.console.type":       "Console",
		"logger.root.type":            "Logger",
		"logger.root.appenderRef.ref": "console",
		"logger.l1.type":              "Logger",
		"logger.l1.tags":              "_replay_*",
		"logger.l1.appenderRef.ref":   "console",
		// handles registered by the repository's own test files must be configured too
		"logger.myLogger.type":            "Logger",
		"logger.myLogger.tags":            "_replayx_*",
		"logger.myLogger.appenderRef.ref": "console",
	}
}

func init() {
	replayers["Destroy"] = func(in map[string]any) {
		var out bytes.Buffer
		save := Stdout
		Stdout = &out
		defer func() { Stdout = save }()
		Destroy() // idle call must be harmless
		tag := RegisterTag("_replay_destroy")
		h := GetLogger("l1")
		if err := Refresh(replayConfig()); err != nil {
			fmt.Println("REPLAY: not-reproduced (Refresh failed:", err, ")")
			return
		}
		if tag.logger == nil || h.logger == nil {
			fmt.Println("REPLAY: not-reproduced (Refresh did not bind)")
			Destroy()
			return
		}
		Destroy()
		if tag.logger != nil {
			fmt.Printf("REPLAY: confirmed after Destroy tag %q is still bound to the stopped logger %T\n", tag.tag, tag.logger)
			return
		}
		if h.logger != nil {
			fmt.Printf("REPLAY: confirmed after Destroy handle %q is still bound to the stopped logger %T\n", h.name, h.logger)
			return
		}
		if global.init || len(global.loggers) != 0 || len(global.appenders) != 0 {
			fmt.Println("REPLAY: confirmed Destroy left global state behind")
			return
		}
		fmt.Println("REPLAY: not-reproduced")
	}
}

func init() {
	replayers["(*RollingFileAppender).clearExpiredFiles"] = func(in map[string]any) {
		dir, err := os.MkdirTemp("", "govc-replay-c14-")
		if err != nil {
			fmt.Println("REPLAY: not-reproduced (no temp dir)")
			return
		}
		defer os.RemoveAll(dir)
		old := timeNowMinusHours(100)
		type f struct {
			name     string
			old, dir bool
			own      bool
		}
		files := []f{
			{"app.log.20200101000000", true, false, true},
			{"app.log.20200101000001", false, false, true},
			{"app.log.wf.20200101000000", true, false, false},
			{"app.log.bak", true, false, false},
			{"app.log.1.gz", true, false, false},
			{"app.log.2020010100000", true, false, false},
			{"app.log.2020010100000x", true, false, false},
			{"app.logx.20200101000000", true, false, false},
			{"other.20200101000000", true, false, false},
			{"app.log.20200101000002", true, true, true},
		}
		for _, x := range files {
			p := dir + "/" + x.name
			if x.dir {
				os.Mkdir(p, 0755)
			} else {
				os.WriteFile(p, []byte("x"), 0644)
			}
			if x.old {
				os.Chtimes(p, old, old)
			}
		}
		a := &RollingFileAppender{FileDir: dir, FileName: "app.log", MaxAge: 1}
		a.clearExpiredFiles()
		for _, x := range files {
			_, err := os.Stat(dir + "/" + x.name)
			gone := err != nil
			want := x.own && x.old && !x.dir
			if gone != want {
				fmt.Printf("REPLAY: confirmed clearExpiredFiles(FileName=app.log, MaxAge=1h): %q removed=%v, want removed=%v (only non-directory entries named app.log.<14 digits> older than MaxAge may go)\n", x.name, gone, want)
				return
			}
		}
		// the file being written is kept whatever its age: an appender whose maximum age is zero (every
		// rotated file counts as expired) runs the cleanup while it holds an open current file
		for _, maxAge := range []int32{0, 1} {
			dir2, err := os.MkdirTemp("", "govc-replay-c14b-")
			if err != nil {
				continue
			}
			b := &RollingFileAppender{FileDir: dir2, FileName: "app.log", MaxAge: maxAge, Rotation: TimeRotation{Interval: time.Hour}}
			if err := b.Start(); err != nil {
				os.RemoveAll(dir2)
				continue
			}
			cur := b.file.Load().Name()
			if maxAge > 0 {
				os.Chtimes(cur, old, old) // nothing was written to it for longer than the maximum age
			}
			time.Sleep(5 * time.Millisecond)
			b.clearExpiredFiles()
			_, statErr := os.Stat(cur)
			b.Stop()
			os.RemoveAll(dir2)
			if statErr != nil {
				fmt.Printf("REPLAY: confirmed clearExpiredFiles(FileName=app.log, MaxAge=%dh) removed %q, the file the appender is writing to\n", maxAge, filepath.Base(cur))
				return
			}
		}
		fmt.Println("REPLAY: not-reproduced")
	}
}

func init() {
	replayers["(*AppenderRefs).sortByLevel"] = func(in map[string]any) {
		levels := []Level{NoneLevel, DebugLevel, InfoLevel, WarnLevel, ErrorLevel}
		type rng struct{ min, max Level }
		var cases [][]rng
		// all sequences of 1..3 refs with lower bounds from `levels`, open-ended or closed at ERROR/MAX-adjacent
		for _, a := range levels {
			cases = append(cases, []rng{{a, MaxLevel}})
			for _, b := range levels {
				cases = append(cases, []rng{{a, MaxLevel}, {b, MaxLevel}}, []rng{{a, ErrorLevel}, {b, MaxLevel}})
				for _, c := range levels {
					cases = append(cases, []rng{{a, MaxLevel}, {b, MaxLevel}, {c, MaxLevel}}, []rng{{a, MaxLevel}, {b, FatalLevel}, {c, MaxLevel}})
				}
			}
		}
		for _, cs := range cases {
			refs := &AppenderRefs{}
			var objs []*AppenderRef
			for _, r := range cs {
				o := &AppenderRef{Appender: &recAppender{}, Level: LevelRange{r.min, r.max}}
				objs = append(objs, o)
				refs.AppenderRefs = append(refs.AppenderRefs, o)
			}
			refs.sortByLevel()
			for i, o := range objs {
				want := cs[i].max
				if cs[i].max == MaxLevel {
					want = MaxLevel
					for _, r := range cs {
						if r.min.code > cs[i].min.code && (want == MaxLevel || r.min.code < want.code) {
							want = r.min
						}
					}
				}
				if o.Level.MinLevel != cs[i].min || o.Level.MaxLevel != want {
					fmt.Printf("REPLAY: confirmed sortByLevel on refs %v: ref %d became [%s,%s), want [%s,%s) (an open-ended reference ends at the next HIGHER lower bound; equal lower bounds share the range)\n",
						cs, i, o.Level.MinLevel.name, o.Level.MaxLevel.name, cs[i].min.name, want.name)
					return
				}
			}
		}
		fmt.Println("REPLAY: not-reproduced")
	}
}

func init() {
	rolling := func(in map[string]any) {
		dir, err := os.MkdirTemp("", "govc-replay-rolling-")
		if err != nil {
			fmt.Println("REPLAY: not-reproduced (no temp dir)")
			return
		}
		defer os.RemoveAll(dir)
		readAll := func() string {
			var sb strings.Builder
			es, _ := os.ReadDir(dir)
			for _, e := range es {
				b, _ := os.ReadFile(dir + "/" + e.Name())
				sb.Write(b)
			}
			return sb.String()
		}
		for _, async := range []bool{false, true} {
			for _, withLayout := range []bool{false, true} {
				f := &RollingFileLogger{
					LoggerBase: LoggerBase{Name: "r", Level: LevelRange{NoneLevel, MaxLevel}},
					FileDir:    dir, FileName: fmt.Sprintf("app-%v-%v.log", async, withLayout),
					Rotation: TimeRotation{Interval: 3600e9}, MaxAge: 1,
					AsyncWrite: async, BufferSize: 1000, BufferFullPolicy: BufferFullPolicyBlock,
				}
				if withLayout {
					f.Layout = &TextLayout{BaseLayout{FileLineLength: 48}}
				}
				if err := f.Start(); err != nil {
					fmt.Printf("REPLAY: confirmed RollingFileLogger(async=%v, layout=%v).Start failed: %v\n", async, withLayout, err)
					return
				}
				marker := fmt.Sprintf("marker-%v-%v", async, withLayout)
				var pan any
				func() {
					defer func() { pan = recover() }()
					e := GetEvent()
					e.Level = InfoLevel
					e.Tag = "_replay_rolling"
					e.Fields = []Field{Msg(marker)}
					f.Append(e)
				}()
				if pan != nil {
					fmt.Printf("REPLAY: confirmed RollingFileLogger(async=%v, logger layout=%v): Append panics: %v (the file appenders were given no layout)\n", async, withLayout, pan)
					return
				}
				f.Stop()
				if !strings.Contains(readAll(), marker) {
					disc := int64(-1)
					if al, ok := f.logger.(*AsyncLogger); ok {
						disc = al.GetDiscardCounter()
					}
					fmt.Printf("REPLAY: confirmed RollingFileLogger(async=%v, logger layout=%v): after Stop the accepted event is not in the file (inner logger never started/stopped; discard counter=%d)\n", async, withLayout, disc)
					return
				}
			}
		}
		fmt.Println("REPLAY: not-reproduced")
	}
	replayers["initRollingFileLogger"] = rolling
	replayers["(*RollingFileLogger).Stop"] = rolling
	replayers["(*RollingFileLogger).Start"] = rolling
}

func init() {
	replayers["(*AsyncLogger).Write"] = func(in map[string]any) {
		for _, pol := range []BufferFullPolicy{BufferFullPolicyBlock, BufferFullPolicyDiscard, BufferFullPolicyDiscardOldest} {
			app := &recAppender{}
			l := &AsyncLogger{LoggerBase: LoggerBase{Level: LevelRange{NoneLevel, MaxLevel}}, BufferSize: 100, BufferFullPolicy: pol}
			l.AppenderRefs.AppenderRefs = []*AppenderRef{{Appender: app, Level: LevelRange{NoneLevel, MaxLevel}}}
			// keep the worker away while the caller reuses its buffer: start only after the writes
			l.buf = make(chan any, l.BufferSize)
			l.wait = make(chan struct{})
			l.stop = &Event{}
			buf := []byte("first line\n")
			l.Write(buf)
			copy(buf, "SECOND!!!!\n") // the caller recycles its buffer, as io.Writer allows
			l.Write(buf)
			go func() {
				for v := range l.buf {
					if v == l.stop {
						break
					}
					if b, ok := v.([]byte); ok {
						app.Write(b)
					}
				}
				close(l.wait)
			}()
			l.Stop()
			if len(app.raws) != 2 || app.raws[0] != "first line\n" || app.raws[1] != "SECOND!!!!\n" {
				fmt.Printf("REPLAY: confirmed AsyncLogger.Write(policy=%d): caller wrote %q then reused the buffer for %q; the appender received %q (the queued slice aliases the caller's buffer)\n", pol, "first line\n", "SECOND!!!!\n", app.raws)
				return
			}
		}
		fmt.Println("REPLAY: not-reproduced")
	}
}

func init() {
	replayers["(*JSONEncoder).AppendFloat64"] = func(in map[string]any) {
		check := func(f float64) string {
			var buf bytes.Buffer
			enc := NewJSONEncoder(&buf)
			enc.AppendObjectBegin()
			enc.AppendKey("k")
			enc.AppendFloat64(f)
			enc.AppendObjectEnd()
			if !json.Valid(buf.Bytes()) {
				return fmt.Sprintf("AppendFloat64(%v) produced %s, which is not valid JSON", f, buf.String())
			}
			return ""
		}
		bits := uint64(0)
		if f, ok := in["bits"].(float64); ok {
			bits = uint64(f)
		}
		cands := []float64{mathFloat64frombits(bits), mathNaN(), mathInf(1), mathInf(-1), 0, 1.5, -2e300}
		for _, f := range cands {
			if msg := check(f); msg != "" {
				fmt.Println("REPLAY: confirmed", msg)
				return
			}
		}
		fmt.Println("REPLAY: not-reproduced")
	}
}

func init() {
	toBytes := func(in map[string]any) {
		for name, l := range map[string]Layout{
			"TextLayout": &TextLayout{BaseLayout{FileLineLength: 48}},
			"JSONLayout": &JSONLayout{BaseLayout{FileLineLength: 48}},
		} {
			a := l.ToBytes(&Event{Level: InfoLevel, Tag: "_replay_a", File: "a.go", Line: 1, Fields: []Field{Msg("first event")}})
			keep := string(a) // what the caller was handed
			b := l.ToBytes(&Event{Level: ErrorLevel, Tag: "_replay_b", File: "b.go", Line: 2, Fields: []Field{Msg("SECOND EVENT, formatted while the first line is still in use")}})
			if string(a) != keep {
				fmt.Printf("REPLAY: confirmed %s.ToBytes: the bytes returned for the first event changed to %q when a second event was formatted (before: %q); both results share one pooled buffer (same backing array: %v)\n",
					name, string(a), keep, len(a) > 0 && len(b) > 0 && &a[0] == &b[0])
				return
			}
		}
		fmt.Println("REPLAY: not-reproduced")
	}
	replayers["(*TextLayout).ToBytes"] = toBytes
	replayers["(*JSONLayout).ToBytes"] = toBytes
}

// ParseHumanizeBytes: digits followed by a unit of the table; a size that does not fit the integer type
// must be an error, never a wrapped number (oracle computed with big integers).
func init() {
	replayers["ParseHumanizeBytes"] = func(in map[string]any) {
		oracle := func(s string) string {
			i := 0
			for i < len(s) && s[i] >= '0' && s[i] <= '9' {
				i++
			}
			num, unit := s[:i], strings.ToUpper(strings.TrimSpace(s[i:]))
			m, known := map[string]int64{"B": 1, "KB": 1024, "MB": 1024 * 1024}[unit]
			var got HumanizeBytes
			var err error
			var pan any
			func() {
				defer func() { pan = recover() }()
				got, err = ParseHumanizeBytes(s)
			}()
			if pan != nil {
				return fmt.Sprintf("ParseHumanizeBytes(%q) panics: %v", s, pan)
			}
			n, okNum := new(big.Int).SetString(num, 10)
			if !okNum || !known {
				if err == nil {
					return fmt.Sprintf("ParseHumanizeBytes(%q) = %d, want an error (no number or unknown unit)", s, got)
				}
				return ""
			}
			want := new(big.Int).Mul(n, big.NewInt(m))
			if !want.IsInt64() {
				if err == nil {
					return fmt.Sprintf("ParseHumanizeBytes(%q) = %d without error; the size is %s, which does not fit the integer type (silent wrap-around)", s, got, want)
				}
				return ""
			}
			if err != nil {
				return fmt.Sprintf("ParseHumanizeBytes(%q) fails: %v, want %s", s, err, want)
			}
			if int64(got) != want.Int64() {
				return fmt.Sprintf("ParseHumanizeBytes(%q) = %d, want %s", s, got, want)
			}
			return ""
		}
		if msg := oracle(rBytes(in["s"])); msg != "" {
			fmt.Println("REPLAY: confirmed", msg)
			return
		}
		for _, num := range []string{"0", "1", "10", "2147483648", "8796093022208", "9007199254740993", "9223372036854775807", "9223372036854775808"} {
			for _, unit := range []string{"B", "KB", "MB", " kb", "GB", ""} {
				if msg := oracle(num + unit); msg != "" {
					fmt.Println("REPLAY: confirmed (bounded search over boundary numbers x units)", msg)
					return
				}
			}
		}
		fmt.Println("REPLAY: not-reproduced")
	}
}

// The bufferCap property: a size that does not fit the 32-bit capacity must be rejected, not truncated.
func init() {
	replayers["RegisterProperty(bufferCap)"] = func(in map[string]any) {
		set := propertyRegistry["bufferCap"]
		if set == nil {
			fmt.Println("REPLAY: not-reproduced (no bufferCap property)")
			return
		}
		saved := BufferCap.Load()
		defer BufferCap.Store(saved)
		for _, s := range []string{"2048MB", "4096MB", "4097MB", "2147483648B", "4194304KB", "6442450944B"} {
			var err error
			var pan any
			func() {
				defer func() { pan = recover() }()
				err = set(s)
			}()
			if pan != nil {
				fmt.Printf("REPLAY: confirmed bufferCap=%q panics: %v\n", s, pan)
				return
			}
			if err == nil {
				fmt.Printf("REPLAY: confirmed (bounded search over sizes around 2^31 and 2^32) bufferCap=%q is accepted and the capacity becomes %d (the size does not fit the 32-bit capacity; want an error)\n", s, BufferCap.Load())
				return
			}
		}
		fmt.Println("REPLAY: not-reproduced")
	}
}

// ParseLevelRange: "" (everything), "MIN" or "MIN~MAX" over registered level names, case-insensitively;
// anything else is an error.
func init() {
	replayers["ParseLevelRange"] = func(in map[string]any) {
		oracle := func(s string) string {
			var got LevelRange
			var err error
			var pan any
			func() {
				defer func() { pan = recover() }()
				got, err = ParseLevelRange(s)
			}()
			if pan != nil {
				return fmt.Sprintf("ParseLevelRange(%q) panics: %v", s, pan)
			}
			t := strings.TrimSpace(s)
			if t == "" {
				if err != nil || got.MinLevel != NoneLevel || got.MaxLevel != MaxLevel {
					return fmt.Sprintf("ParseLevelRange(%q) = %v, %v; want [NONE, MAX)", s, got, err)
				}
				return ""
			}
			parts := strings.Split(t, "~")
			lookup := func(n string) (Level, bool) { l, ok := levelRegistry[strings.ToUpper(n)]; return l, ok }
			if len(parts) > 2 {
				if err == nil {
					return fmt.Sprintf("ParseLevelRange(%q) = [%s, %s) without error; the string is neither MIN nor MIN~MAX (the extra bound is silently ignored)", s, got.MinLevel.Name(), got.MaxLevel.Name())
				}
				return ""
			}
			lo, okLo := lookup(parts[0])
			hi, okHi := MaxLevel, true
			if len(parts) == 2 {
				hi, okHi = lookup(parts[1])
			}
			if !okLo || !okHi {
				if err == nil {
					return fmt.Sprintf("ParseLevelRange(%q) accepts an unregistered level name", s)
				}
				return ""
			}
			if err != nil || got.MinLevel != lo || got.MaxLevel != hi {
				return fmt.Sprintf("ParseLevelRange(%q) = %v, %v; want [%s, %s)", s, got, err, lo.Name(), hi.Name())
			}
			return ""
		}
		if msg := oracle(rBytes(in["s"])); msg != "" {
			fmt.Println("REPLAY: confirmed", msg)
			return
		}
		names := []string{"", "info", "INFO", "warn", "Error", "max", "none", "loud"}
		for _, a := range names {
			for _, b := range names {
				for _, c := range names {
					for _, s := range []string{a, a + "~" + b, a + "~" + b + "~" + c, " " + a + "~" + b + " "} {
						if msg := oracle(s); msg != "" {
							fmt.Println("REPLAY: confirmed (bounded search over 8 names in up to three positions)", msg)
							return
						}
					}
				}
			}
		}
		fmt.Println("REPLAY: not-reproduced")
	}
}
