package main

import (
	"encoding/json"
	"fmt"
	"go/types"

	"golang.org/x/tools/go/packages"
	"golang.org/x/tools/go/ssa"
	"golang.org/x/tools/go/ssa/ssautil"
	"os"
	"os/exec"
	"path/filepath"
	"sort"
	"strconv"
	"strings"
	"time"
)

type KnownFinding struct {
	Property   string `json:"property"`
	Obligation string `json:"obligation"`
	Status     string `json:"status"` // known | fixed
	Commit     string `json:"commit,omitempty"`
	WhatFails  string `json:"what_fails"`
	Witness    string `json:"witness,omitempty"`
}

func loadKnown(verif string) []KnownFinding {
	b, err := os.ReadFile(filepath.Join(verif, "known_findings.json"))
	if err != nil {
		return nil
	}
	var ks []KnownFinding
	if err := json.Unmarshal(b, &ks); err != nil {
		fmt.Fprintln(os.Stderr, "known_findings.json:", err)
		return nil
	}
	return ks
}

// lemmaVC builds the pseudo-function holding the lemmas of a property.
func lemmaVC(P *Program, prop string) (*VC, error) {
	var ls []*Lemma
	for _, l := range P.spec.Lemmas {
		for _, p := range l.Props {
			if p == prop {
				ls = append(ls, l)
			}
		}
	}
	if len(ls) == 0 {
		return nil, nil
	}
	spec := &FuncSpec{Name: "lemmas", Props: []string{prop}, Replay: map[string]string{}, Callee: map[string]string{}}
	vc := newVC(P, nil, spec)
	vc.entry = vc.newState()
	env := &Env{vc: vc, st: vc.entry, old: vc.entry, vars: map[string]Term{}, pkg: P.logPkg.Types}
	for _, ax := range P.spec.Axioms {
		if ax.Label != "" {
			continue
		}
		s, err := env.boolean(ax.Expr)
		if err != nil {
			return nil, fmt.Errorf("axiom: %v", err)
		}
		vc.assume(s)
	}
	for _, l := range ls {
		s, err := env.boolean(l.Expr)
		if err != nil {
			return nil, fmt.Errorf("lemma %s: %v", l.Name, err)
		}
		vc.name = "lemma"
		o := vc.oblige("lemma", l.Name, l.Props, "true", s, l.Text, 0)
		o.Func = "lemma " + l.Name
	}
	return vc, nil
}

// staticVC: obligations decided by inspection of the SSA form of the whole repository (no solver):
// declared-immutable fields are never stored to, and the accessor of such a field is what every
// implementation of the interface method resolves to.
func staticVC(P *Program, prop string) *VC {
	var ims []*Immutable
	for _, im := range P.spec.Immutables {
		if hasProp(im.Props, prop) {
			ims = append(ims, im)
		}
	}
	if len(ims) == 0 {
		return nil
	}
	spec := &FuncSpec{Name: "repository", Props: []string{prop}, Replay: map[string]string{}, Callee: map[string]string{}}
	vc := newVC(P, nil, spec)
	vc.entry = vc.newState()
	vc.name = "repository"
	for _, im := range ims {
		var sites []string
		for fn := range ssautil.AllFunctions(P.prog) {
			home := fn
			for home.Parent() != nil {
				home = home.Parent()
			}
			if home.Pkg == nil || !strings.HasPrefix(home.Pkg.Pkg.Path(), logPath) {
				continue
			}
			for _, b := range fn.Blocks {
				for _, in := range b.Instrs {
					st, ok := in.(*ssa.Store)
					if !ok {
						continue
					}
					if storesField(st, im.Struct, im.Field) {
						sites = append(sites, fmt.Sprintf("%s (%s)", fn.String(), P.fset.Position(st.Pos())))
					}
				}
			}
		}
		sort.Strings(sites)
		text := fmt.Sprintf("no instruction of the repository stores to %s.%s (or to a whole %s) of an existing object -- the only stores initialise objects the storing function has just allocated, or package variables during package initialisation -- so the field keeps the value construction gave it", im.Struct, im.Field, im.Struct)
		o := vc.oblige("immutable", im.Struct+"."+im.Field, im.Props, "true", "true", text, 0)
		o.Func = "repository"
		if len(sites) == 0 {
			o.Static = "holds"
		} else {
			o.Static = "fails"
			o.Text = text + "; stores found: " + strings.Join(sites, "; ")
		}
		if im.Iface != "" {
			bad := implementationsNotVia(P, im)
			o2 := vc.oblige("accessor", im.Iface, im.Props, "true", "true",
				fmt.Sprintf("every type of the repository that implements %s does so by the accessor of the embedded %s (a read of %s)", im.Iface, im.Struct, im.Field), 0)
			o2.Func = "repository"
			if len(bad) == 0 {
				o2.Static = "holds"
			} else {
				o2.Static = "fails"
				o2.Text += "; other implementations: " + strings.Join(bad, ", ")
			}
		}
	}
	return vc
}

// initialVC: facts about the state package initialisation leaves behind (the base case of the lifecycle
// invariants, and what the axioms about package variables rest on).  Package initialisation has no
// input, so executing it once -- TestGovcInitial of /verif/replay/log_bounded_test.go, injected into the
// package with -overlay -- decides each fact exhaustively.
var initialCache = map[string]string{}

func initialVC(P *Program, prop, repo, verif, scratch string) *VC {
	src := filepath.Join(verif, "replay", "log_bounded_test.go")
	raw, err := os.ReadFile(src)
	if err != nil || !strings.Contains(string(raw), "func TestGovcInitial(") {
		return nil
	}
	out, done := initialCache[repo]
	if !done {
		ov := map[string]any{"Replace": map[string]string{
			filepath.Join(repo, "zz_govc_bounded_test.go"):     src,
			filepath.Join(repo, "zz_govc_replay_test.go"):      filepath.Join(verif, "replay", "log_replay_test.go"),
			filepath.Join(repo, "zz_govc_replay_util_test.go"): filepath.Join(verif, "replay", "log_replay_util_test.go"),
		}}
		ovFile := filepath.Join(scratch, "overlay_initial.json")
		writeJSON(ovFile, ov)
		cmd := exec.Command("go", "test", "-overlay", ovFile, "-vet=off", "-count=1", "-timeout", "120s", "-v", "-run", "^TestGovcInitial$", ".")
		cmd.Dir = repo
		env := []string{}
		for _, e := range os.Environ() {
			if strings.HasPrefix(e, "GOSUMDB=") || strings.HasPrefix(e, "GOTOOLCHAIN=") || strings.HasPrefix(e, "GOFLAGS=") {
				continue
			}
			env = append(env, e)
		}
		cmd.Env = append(env, "GOFLAGS=-mod=mod", "GOPROXY=off", "GOVC_INITIAL=1")
		b, _ := cmd.CombinedOutput()
		out = string(b)
		initialCache[repo] = out
	}
	spec := &FuncSpec{Name: "initial-state", Props: []string{prop}, Replay: map[string]string{}, Callee: map[string]string{}}
	vc := newVC(P, nil, spec)
	vc.entry = vc.newState()
	vc.name = "initial-state"
	n := 0
	for _, l := range strings.Split(out, "\n") {
		ok := strings.HasPrefix(l, "INITIAL-OK ")
		bad := strings.HasPrefix(l, "INITIAL-VIOLATION ")
		if !ok && !bad {
			continue
		}
		rest := strings.TrimPrefix(strings.TrimPrefix(l, "INITIAL-OK "), "INITIAL-VIOLATION ")
		i, j := strings.Index(rest, "["), strings.Index(rest, "]")
		if i < 0 || j < i {
			continue
		}
		name := strings.TrimSpace(rest[:i])
		props := strings.Split(rest[i+1:j], ",")
		if !hasProp(props, prop) {
			continue
		}
		n++
		o := vc.oblige("initial", name, []string{prop}, "true", "true", "after package initialisation: "+name+" (decided by executing the initialisation, which takes no input)", 0)
		o.Func = "initial-state"
		if ok {
			o.Static = "holds"
		} else {
			o.Static = "fails"
			o.Text += ": " + strings.TrimSpace(rest[j+1:])
		}
	}
	if n == 0 {
		if !strings.Contains(out, "INITIAL-") {
			// the run itself broke (does not compile against the tree, panicked)
			o := vc.oblige("initial", "run", []string{prop}, "true", "true", "the initial-state facts could be evaluated", 0)
			o.Func = "initial-state"
			o.Static = "fails"
			o.Text += ": " + firstLines(out, 8)
			return vc
		}
		return nil
	}
	return vc
}

// storesField: does the store write field `field` of struct `structName` (directly, through a
// sub-field, or by overwriting the whole struct)?
func storesField(st *ssa.Store, structName, field string) bool {
	isStruct := func(t types.Type) bool {
		if p, ok := types.Unalias(t).Underlying().(*types.Pointer); ok {
			t = p.Elem()
		}
		n, ok := types.Unalias(t).(*types.Named)
		return ok && n.Obj().Name() == structName && n.Obj().Pkg() != nil && strings.HasPrefix(n.Obj().Pkg().Path(), logPath)
	}
	// initialisation is not mutation: stores into an object this very function has just allocated (a
	// composite literal being filled in) and stores of the package initialiser into a package variable
	root := st.Addr
	for {
		switch x := root.(type) {
		case *ssa.FieldAddr:
			root = x.X
			continue
		case *ssa.IndexAddr:
			root = x.X
			continue
		}
		break
	}
	if _, fresh := root.(*ssa.Alloc); fresh {
		return false
	}
	if _, glob := root.(*ssa.Global); glob && st.Parent() != nil && st.Parent().Name() == "init" {
		return false
	}
	addr := st.Addr
	// whole-struct store
	if isStruct(addr.Type()) {
		return true
	}
	for {
		switch x := addr.(type) {
		case *ssa.FieldAddr:
			if isStruct(x.X.Type()) {
				s := types.Unalias(x.X.Type()).Underlying().(*types.Pointer).Elem().Underlying().(*types.Struct)
				return s.Field(x.Field).Name() == field
			}
			addr = x.X
			continue
		case *ssa.IndexAddr:
			addr = x.X
			continue
		}
		return false
	}
}

// implementationsNotVia lists the repository types implementing the interface method other than
// through the accessor declared on the struct that owns the immutable field.
func implementationsNotVia(P *Program, im *Immutable) []string {
	i := strings.LastIndex(im.Iface, ".")
	iname, mname := im.Iface[:i], im.Iface[i+1:]
	obj := P.logPkg.Types.Scope().Lookup(iname)
	if obj == nil {
		return []string{"unknown interface " + iname}
	}
	it, ok := obj.Type().Underlying().(*types.Interface)
	if !ok {
		return []string{iname + " is not an interface"}
	}
	var bad []string
	for _, pk := range []*packages.Package{P.logPkg, P.exprPkg} {
		if pk == nil {
			continue
		}
		sc := pk.Types.Scope()
		for _, n := range sc.Names() {
			tn, ok := sc.Lookup(n).(*types.TypeName)
			if !ok || tn.IsAlias() {
				continue
			}
			for _, recv := range []types.Type{tn.Type(), types.NewPointer(tn.Type())} {
				if _, isI := tn.Type().Underlying().(*types.Interface); isI {
					continue
				}
				if !types.Implements(recv, it) {
					continue
				}
				sel := P.prog.MethodSets.MethodSet(recv).Lookup(pk.Types, mname)
				if sel == nil {
					continue
				}
				f, _ := sel.Obj().(*types.Func)
				if f == nil {
					continue
				}
				rs := f.Type().(*types.Signature).Recv().Type()
				if p, ok := rs.(*types.Pointer); ok {
					rs = p.Elem()
				}
				if nn, ok := types.Unalias(rs).(*types.Named); !ok || nn.Obj().Name() != im.Struct {
					bad = append(bad, types.TypeString(recv, nil))
				}
				break
			}
		}
	}
	sort.Strings(bad)
	return bad
}

type evidence struct {
	PropertyID  string         `json:"property_id"`
	Tier        string         `json:"tier"`
	Seed        int            `json:"seed"`
	Level       string         `json:"level"`
	Coverage    map[string]any `json:"coverage"`
	Assumptions []string       `json:"assumptions"`
	WallS       float64        `json:"wall_s"`
	Violations  int            `json:"violations"`
}

func runCheck(prop, tier, repo, verif string, verbose, noReplay bool, evOut string) int {
	start := time.Now()
	seed, _ := strconv.Atoi(os.Getenv("VERIF_SEED"))
	evPath := filepath.Join(verif, "evidence", prop+".json")
	if evOut != "" {
		evPath = evOut
	} else {
		os.MkdirAll(filepath.Dir(evPath), 0755)
		os.Remove(evPath)
	}

	engineFail := func(what string, err error) int {
		rp := writeReplayFile(verif, prop, "engine#"+what, map[string]any{"obligation": "engine#" + what, "error": err.Error()})
		fmt.Printf("VIOLATION property=%s replay=%s obligation=engine#%s %s no-failing-input-found\n", prop, rp, what, oneLine(err.Error()))
		ev := evidence{PropertyID: prop, Tier: tier, Seed: seed, Level: "proof", WallS: time.Since(start).Seconds(), Violations: 1,
			Coverage: map[string]any{"obligations": 1, "discharged": 0, "checker_cmd": "govc check " + prop, "trusted_base": []string{}, "explanation": "engine failure: " + err.Error(),
				"evaluations": 1, "distinct_nontrivial": 0}}
		writeJSON(evPath, ev)
		return 1
	}

	P, err := loadProgram(repo, verif)
	if err != nil {
		return engineFail("load", err)
	}
	scratch, err := os.MkdirTemp("", "govc-"+prop+"-")
	if err != nil {
		return engineFail("scratch", err)
	}
	if os.Getenv("GOVC_KEEP") == "" {
		defer os.RemoveAll(scratch)
	} else {
		fmt.Fprintln(os.Stderr, "scratch kept:", scratch)
	}
	known := loadKnown(verif)

	// vacuity guard: every prelude theory (with its dependencies) must be consistent on its own
	if bad := P.prelude.inconsistent(scratch); bad != "" {
		return engineFail("prelude-consistent", fmt.Errorf("prelude theory %s is inconsistent (a solver derives false from the axioms alone)", bad))
	}

	var vcs []*VC
	var obls []*Obligation
	var vcOf map[*Obligation]*VC
	var perFunc map[string]int
	var resolveErrs []error
	// attempt generates and discharges everything under the current choice of alternative contracts
	attempt := func() (failing int, what string, err error) {
		names := functionsFor(P, prop)
		if only := os.Getenv("GOVC_ONLY"); only != "" {
			// development aid: restrict the run to the functions whose contract name contains the text
			var keep []string
			for _, n := range names {
				if strings.Contains(n, only) {
					keep = append(keep, n)
				}
			}
			names = keep
		}
		var errs []error
		vcs, errs = buildVCs(P, names)
		// a contract that no longer resolves against the tree is reported below; the other
		// functions and the bounded stand-in are still checked
		resolveErrs = errs
		if lv, err := lemmaVC(P, prop); err != nil {
			return 0, "lemma", err
		} else if lv != nil {
			vcs = append(vcs, lv)
		}
		if sv := staticVC(P, prop); sv != nil {
			vcs = append(vcs, sv)
		}
		if iv := initialVC(P, prop, repo, verif, scratch); iv != nil {
			vcs = append(vcs, iv)
		}
		if len(vcs) == 0 && len(errs) == 0 {
			return 0, "no-functions", fmt.Errorf("no function under contract serves %s", prop)
		}
		obls = nil
		vcOf = map[*Obligation]*VC{}
		perFunc = map[string]int{}
		for _, vc := range vcs {
			for _, o := range vc.obls {
				o.Skip = !(o.Canary || hasProp(o.Props, prop))
				if o.Canary || hasProp(o.Props, prop) {
					obls = append(obls, o)
					vcOf[o] = vc
					if !o.Canary {
						perFunc[vc.name]++
					}
				}
			}
		}
		solveAll(vcs, obls, vcOf, tier, scratch)
		for _, o := range obls {
			if o.Canary {
				if o.Result == "unsat" {
					failing++
				}
				continue
			}
			if o.Result != "unsat" && matchKnown(known, prop, o.Name) == nil {
				failing++
			}
		}
		return failing, "", nil
	}
	failing, what, err := attempt()
	if err != nil {
		return engineFail(what, err)
	}
	variantNote := "default (A) contracts everywhere"
	if failing > 0 {
		// functions that keep a redundant check on both sides of a call carry an alternative
		// contract (name@B); the property holds if everything verifies under one consistent choice
		// only alternatives of functions involved in a failure (the function itself or a caller of it)
		var alts []string
		for _, a := range P.alternatives() {
			involved := false
			for _, o := range obls {
				if o.Canary || o.Result == "unsat" {
					continue
				}
				if vc := vcOf[o]; vc != nil && (vc.spec.Name == a || vc.spec.Name == a+"@B" || vc.usedSpecs[a] || vc.usedSpecs[a+"@B"]) {
					involved = true
				}
			}
			if involved {
				alts = append(alts, a)
			}
		}
		tried := false
		for mask := 1; mask < (1<<len(alts)) && len(alts) <= 4 && failing <= 40; mask++ {
			P.variant = map[string]string{}
			var chosen []string
			for i, a := range alts {
				if mask&(1<<i) != 0 {
					P.variant[a] = "B"
					chosen = append(chosen, a+"@B")
				}
			}
			tried = true
			f2, _, err2 := attempt()
			if err2 == nil && f2 == 0 {
				failing = 0
				variantNote = "alternative contracts used: " + strings.Join(chosen, ", ")
				break
			}
		}
		if failing > 0 && tried {
			P.variant = map[string]string{}
			if _, what, err := attempt(); err != nil {
				return engineFail(what, err)
			}
		}
	}

	violations := 0
	discharged := 0
	total := 0
	var solverMs int64
	var canaries, canaryBad int
	var oblRecords []map[string]any
	bySolver := map[string]int{}
	var samples []any
	exit := 0
	printedKnown := map[string]bool{}
	replays := 0

	// vacuity: floors
	for _, vc := range vcs {
		if vc.spec.Floor > 0 && len(vc.obls) < vc.spec.Floor {
			rp := writeReplayFile(verif, prop, vc.name+"#floor", map[string]any{"obligation": vc.name + "#floor", "have": len(vc.obls), "want": vc.spec.Floor})
			fmt.Printf("VIOLATION property=%s replay=%s obligation=%s#floor only %d obligations generated, expected at least %d no-failing-input-found\n", prop, rp, vc.name, len(vc.obls), vc.spec.Floor)
			violations++
			exit = 1
		}
	}

	// an exit that cannot be reached under the contract's precondition is dead code (a defensive check that
	// never fires), not vacuity, as long as the function has an exit that can be reached
	liveExit := map[string]bool{}
	for _, o := range obls {
		if o.Canary && o.Kind == "canary.exit" && o.Result != "unsat" {
			liveExit[o.Func] = true
		}
	}
	deadExits := 0
	for _, o := range obls {
		solverMs += o.Millis
		if o.Canary {
			canaries++
			if o.Result == "unsat" && o.Kind == "canary.exit" && liveExit[o.Func] {
				deadExits++
				fmt.Fprintf(os.Stderr, "note: %s: this exit cannot be reached under the contract's precondition (dead code or a defensive check); the function has other exits that can\n", o.Name)
				continue
			}
			if o.Result == "unsat" {
				canaryBad++
				rp := writeReplayFile(verif, prop, o.Name, map[string]any{"obligation": o.Name, "reason": "vacuity canary verified: the assumptions on this path are contradictory", "solver": o.Solver})
				fmt.Printf("VIOLATION property=%s replay=%s obligation=%s vacuity canary verified (contradictory assumptions) no-failing-input-found\n", prop, rp, o.Name)
				violations++
				exit = 1
			}
			continue
		}
		total++
		rec := map[string]any{"name": o.Name, "kind": o.Kind, "result": o.Result, "solver": o.Solver, "ms": o.Millis, "pos": o.Pos}
		oblRecords = append(oblRecords, rec)
		if o.Result == "unsat" {
			discharged++
			bySolver[o.Solver]++
			if len(samples) < 6 {
				samples = append(samples, map[string]any{"obligation": o.Name, "at": o.Pos, "proves": o.Text, "solver": o.Solver, "ms": o.Millis})
			}
			continue
		}
		// failed obligation
		if k := matchKnown(known, prop, o.Name); k != nil {
			key := k.Obligation + "|" + k.WhatFails
			if !printedKnown[key] {
				printedKnown[key] = true
				fmt.Printf("KNOWN-FINDING: property=%s %s (obligation %s)\n", prop, k.WhatFails, o.Name)
			}
			rec["known_finding"] = true
			continue
		}
		violations++
		exit = 1
		info := map[string]any{"obligation": o.Name, "kind": o.Kind, "at": o.Pos, "proves": o.Text, "solver_result": o.Result,
			"solver": o.Solver, "solver_output": firstLines(o.Output, 60), "function": o.Func, "property": prop}
		suffix := " no-failing-input-found"
		vc := vcOf[o]
		replays++
		if vc != nil && !noReplay && vc.fn != nil && replays > 8 {
			info["replay"] = "not attempted: the run already replayed 8 failed obligations"
		}
		if vc != nil && !noReplay && vc.fn != nil && replays <= 8 {
			inputs := map[string]any{}
			if len(o.Model) > 0 {
				inputs = vc.modelInputs(o)
			}
			info["inputs"] = inputs
			{
				ok, out := runReplay(repo, verif, vc.name, inputs, scratch)
				info["replay_output"] = out
				if ok {
					info["replay"] = "confirmed on the real code"
					suffix = ""
				} else {
					info["replay"] = "the solver's model did not reproduce on the real code"
				}
			}
		}
		rp := writeReplayFile(verif, prop, o.Name, info)
		fmt.Printf("VIOLATION property=%s replay=%s obligation=%s result=%s at=%s%s\n", prop, rp, o.Name, o.Result, o.Pos, suffix)
	}

	for i, e := range resolveErrs {
		violations++
		exit = 1
		rp := writeReplayFile(verif, prop, fmt.Sprintf("engine#contract-resolves#%d", i+1), map[string]any{"obligation": "engine#contract-resolves", "error": e.Error(),
			"reason": "the contract of this function cannot be generated against the current tree (function restructured, renamed or outside the supported subset): its obligations are undecided"})
		fmt.Printf("VIOLATION property=%s replay=%s obligation=engine#contract-resolves %s no-failing-input-found\n", prop, rp, oneLine(e.Error()))
	}

	// bounded stand-ins for code the contracts cannot reach (reported as bounded, never as proved)
	boundedNotes := []string{}
	if br := runBounded(repo, verif, prop, tier, scratch); br != nil {
		boundedNotes = append(boundedNotes, br.note)
		for i, v := range br.violations {
			violations++
			exit = 1
			rp := writeReplayFile(verif, prop, fmt.Sprintf("bounded#%s#%d", br.test, i+1), map[string]any{"obligation": "bounded#" + br.test, "property": prop,
				"replay": "confirmed on the real code (the bounded run executes /repo's Refresh)", "failing_input": v, "output": firstLines(br.output, 40)})
			fmt.Printf("VIOLATION property=%s replay=%s obligation=bounded#%s %s\n", prop, rp, br.test, v)
		}
	}

	// thorough tier: the assumed contracts of library functions this property's proofs use are compared with
	// the real libraries over bounded input sets (validation of assumptions: bounded, never counted as proved)
	if tier == "thorough" {
		used := map[string]bool{}
		for _, vc := range vcs {
			for e := range vc.usedExterns {
				used[e] = true
			}
		}
		for _, l := range runExterns(repo, verif, scratch) {
			ok := strings.HasPrefix(l, "EXTERN-OK ")
			rest := strings.TrimPrefix(strings.TrimPrefix(l, "EXTERN-OK "), "EXTERN-VIOLATION ")
			i := strings.Index(rest, ": ")
			if i < 0 {
				continue
			}
			relevant := false
			for _, n := range strings.Split(rest[:i], ",") {
				if used[strings.TrimSpace(n)] {
					relevant = true
				}
			}
			if !relevant {
				continue
			}
			if ok {
				boundedNotes = append(boundedNotes, "ASSUMPTION VALIDATION (bounded, not a proof): assumed contracts of "+rest[:i]+" agree with the real library on: "+rest[i+2:])
				continue
			}
			violations++
			exit = 1
			rp := writeReplayFile(verif, prop, "extern#"+rest[:i], map[string]any{"obligation": "extern#" + rest[:i], "property": prop,
				"replay": "the real library function disagrees with its assumed contract in /verif/specs/externs.vc: proofs that use it are void", "failing_input": rest[i+2:]})
			fmt.Printf("VIOLATION property=%s replay=%s obligation=extern#%s an assumed library contract is refuted by the library: %s\n", prop, rp, rest[:i], rest[i+2:])
		}
	}

	// evidence
	var funcs []string
	assumed := map[string]bool{}
	assumedClauses := map[string]bool{}
	var notes []string
	for _, vc := range vcs {
		funcs = append(funcs, fmt.Sprintf("%s (%d obligations)", vc.name, perFunc[vc.name]))
		for e := range vc.usedExterns {
			assumed[e] = true
		}
		if vc.spec != nil {
			for _, c := range vc.spec.Clauses {
				if c.Assumed {
					assumedClauses["assumed clause of "+vc.spec.Name+" (body not checked against it): "+c.Text] = true
				}
			}
		}
		for e := range vc.usedSpecs {
			if sp := P.spec.Funcs[e]; sp != nil && sp.Trusted {
				assumed[e] = true
			}
			if sp := P.spec.Funcs[e]; sp != nil && !sp.Trusted && !sp.Extern {
				for _, c := range sp.Clauses {
					if c.Assumed {
						assumedClauses["assumed clause of "+e+" (body not checked against it): "+c.Text] = true
					}
				}
			}
		}
		for _, n := range vc.notes {
			notes = append(notes, vc.name+": "+n)
		}
	}
	sort.Strings(funcs)
	var assumptions []string
	for _, e := range sortedKeys(assumed) {
		assumptions = append(assumptions, "assumed contract (not verified): "+e+" — "+specSummary(P.spec.Funcs[e]))
	}
	for _, e := range sortedKeys(assumedClauses) {
		assumptions = append(assumptions, e)
	}
	for _, ax := range P.spec.Axioms {
		if strings.HasPrefix(ax.Name, "lemma ") {
			// not an assumption: discharged as obligation lemma#lemma[...] in the check of its property
			continue
		}
		assumptions = append(assumptions, "axiom: "+ax.Text)
	}
	for _, n := range sortStrings(notes) {
		assumptions = append(assumptions, "over-approximation: "+n)
	}
	assumptions = append(assumptions, globalAssumptions...)
	if len(samples) == 0 {
		samples = append(samples, "no obligation discharged")
	}
	ev := evidence{PropertyID: prop, Tier: tier, Seed: seed, Level: "proof", WallS: time.Since(start).Seconds(), Violations: violations,
		Assumptions: assumptions,
		Coverage: map[string]any{
			"obligations":              total,
			"discharged":               discharged,
			"checker_cmd":              fmt.Sprintf("govc check %s -tier %s (VC generation over go/ssa of /repo's working tree; z3 5.1.0, z3 4.8.12, cvc5 1.0 raced per obligation)", prop, tier),
			"trusted_base":             trustedBase,
			"samples":                  samples,
			"functions_under_contract": funcs,
			"discharged_by_backend":    bySolver,
			"solver_time_s":            float64(solverMs) / 1000,
			"vacuity_canaries":         canaries,
			"vacuity_canaries_failed":  canaryBad,
			"unreachable_exits":        deadExits,
			"obligation_results":       oblRecords,
			"integer_semantics":        "mathematical Int with explicit two's-complement wrap per static Go type",
			"contract_variants":        variantNote,
			"bounded":                  boundedNotes,
		}}
	writeJSON(evPath, ev)
	if verbose || exit != 0 {
		for _, o := range obls {
			if o.Canary {
				continue
			}
			if verbose || o.Result != "unsat" {
				fmt.Fprintf(os.Stderr, "  %-8s %6dms %-10s %s\n", o.Result, o.Millis, o.Solver, o.Name)
			}
		}
	}
	fmt.Printf("%s: %d/%d obligations discharged over %d functions, %d violations, %.1fs\n", prop, discharged, total, len(vcs), violations, time.Since(start).Seconds())
	return exit
}

var trustedBase = []string{
	"go/packages, go/types, go/ssa (golang.org/x/tools v0.50.0) and their agreement with the gc compiler",
	"govc (this VC generator): heap model with one array per struct field, no aliasing between distinct fields, mathematical integers with explicit wrap",
	"z3 4.8.12, z3 5.1.0, cvc5 1.0",
	"spec theories under /verif/specs/prelude as transcriptions of RFC 8259, RFC 3629 and the property statements",
	"assumed contracts of /verif/specs/externs.vc (standard library and dependencies)",
	"partial correctness except where a decreases clause is given",
}

var globalAssumptions = []string{
	"floating-point values are opaque bit patterns; float arithmetic is uninterpreted",
	"goroutine interleavings are not explored: every function is verified sequentially against contracts",
}

func specSummary(s *FuncSpec) string {
	if s == nil {
		return ""
	}
	var parts []string
	for _, c := range s.Clauses {
		if c.Kind == "ensures" || c.Kind == "requires" {
			parts = append(parts, c.Kind+" "+c.Text)
		}
	}
	out := strings.Join(parts, "; ")
	if len(out) > 300 {
		out = out[:297] + "..."
	}
	return out
}

func hasProp(ps []string, p string) bool {
	for _, x := range ps {
		if x == p {
			return true
		}
	}
	return false
}

func matchKnown(ks []KnownFinding, prop, obl string) *KnownFinding {
	for i := range ks {
		k := &ks[i]
		if k.Status != "known" || k.Property != prop {
			continue
		}
		if k.Obligation == obl || (strings.HasSuffix(k.Obligation, "*") && strings.HasPrefix(obl, strings.TrimSuffix(k.Obligation, "*"))) {
			return k
		}
	}
	return nil
}

func oneLine(s string) string {
	s = strings.Join(strings.Fields(s), " ")
	if len(s) > 300 {
		s = s[:297] + "..."
	}
	return s
}

func writeJSON(path string, v any) {
	b, _ := json.MarshalIndent(v, "", " ")
	os.WriteFile(path, append(b, '\n'), 0644)
}

func writeReplayFile(verif, prop, obl string, info map[string]any) string {
	dir := filepath.Join(verif, "replay", "out")
	os.MkdirAll(dir, 0755)
	name := prop + "-" + mangle(obl)
	if len(name) > 120 {
		name = name[:120]
	}
	p := filepath.Join(dir, name+".json")
	writeJSON(p, info)
	return p
}

// modelInputs turns the solver model into the replay variables.
func (vc *VC) modelInputs(o *Obligation) map[string]any {
	out := map[string]any{}
	strs := map[string]map[int]int{}
	lens := map[string]int{}
	for i, k := range vc.replayKeys {
		if i >= len(o.ReplayQ) {
			break
		}
		v, ok := o.Model[o.ReplayQ[i]]
		if !ok {
			continue
		}
		switch {
		case strings.HasSuffix(k, ".len"):
			n, err := parseSMTInt(v)
			if err == nil {
				lens[strings.TrimSuffix(k, ".len")] = int(n)
			}
		case strings.HasSuffix(k, "]") && strings.Contains(k, "["):
			base := k[:strings.LastIndex(k, "[")]
			idx, _ := strconv.Atoi(k[strings.LastIndex(k, "[")+1 : len(k)-1])
			n, err := parseSMTInt(v)
			if err == nil {
				if strs[base] == nil {
					strs[base] = map[int]int{}
				}
				strs[base][idx] = int(n)
			}
		default:
			if n, err := parseSMTInt(v); err == nil {
				out[k] = n
			} else if v == "true" || v == "false" {
				out[k] = v == "true"
			} else {
				out[k] = v
			}
		}
	}
	for base, n := range lens {
		if n > 40 || n < 0 {
			out[base+".len"] = n
			continue
		}
		bs := make([]int, n)
		for i := 0; i < n; i++ {
			bs[i] = strs[base][i] & 0xff
		}
		out[base] = bs
	}
	return out
}

func parseSMTInt(s string) (int64, error) {
	s = strings.TrimSpace(s)
	neg := false
	if strings.HasPrefix(s, "(-") {
		neg = true
		s = strings.TrimSpace(strings.TrimSuffix(strings.TrimPrefix(s, "(-"), ")"))
	}
	n, err := strconv.ParseInt(s, 10, 64)
	if err != nil {
		return 0, err
	}
	if neg {
		n = -n
	}
	return n, nil
}

// runReplay runs the real function on the model's inputs through an in-package
// test injected with -overlay; nothing is written into the repository.
func runReplay(repo, verif, fn string, inputs map[string]any, scratch string) (bool, string) {
	pkgDir := repo
	src := filepath.Join(verif, "replay", "log_replay_test.go")
	if _, err := os.Stat(src); err != nil {
		return false, "no replay harness"
	}
	in := map[string]any{"function": fn, "inputs": inputs}
	inFile := filepath.Join(scratch, "replay_in_"+mangle(fn)+".json")
	writeJSON(inFile, in)
	ov := map[string]any{"Replace": map[string]string{
		filepath.Join(pkgDir, "zz_govc_replay_test.go"):      src,
		filepath.Join(pkgDir, "zz_govc_replay_util_test.go"): filepath.Join(verif, "replay", "log_replay_util_test.go"),
		filepath.Join(pkgDir, "zz_govc_bounded_test.go"):     filepath.Join(verif, "replay", "log_bounded_test.go"),
	}}
	ovFile := filepath.Join(scratch, "overlay_"+mangle(fn)+".json")
	writeJSON(ovFile, ov)
	cmd := exec.Command("go", "test", "-overlay", ovFile, "-vet=off", "-count=1", "-timeout", "60s", "-v", "-run", "^TestGovcReplay$", ".")
	cmd.Dir = pkgDir
	env := []string{}
	for _, e := range os.Environ() {
		if strings.HasPrefix(e, "GOSUMDB=") || strings.HasPrefix(e, "GOTOOLCHAIN=") || strings.HasPrefix(e, "GOFLAGS=") {
			continue
		}
		env = append(env, e)
	}
	env = append(env, "GOFLAGS=-mod=mod", "GOPROXY=off", "GOVC_REPLAY="+inFile)
	cmd.Env = env
	out, _ := cmd.CombinedOutput()
	s := string(out)
	return strings.Contains(s, "REPLAY: confirmed"), firstLines(s, 30)
}

type boundedResult struct {
	test       string
	note       string
	violations []string
	output     string
}

// runExterns runs TestGovcExterns of /verif/replay/log_externs_test.go against the working tree (injected with
// -overlay) and returns its EXTERN-OK / EXTERN-VIOLATION lines.
func runExterns(repo, verif, scratch string) []string {
	src := filepath.Join(verif, "replay", "log_externs_test.go")
	if _, err := os.Stat(src); err != nil {
		return nil
	}
	ov := map[string]any{"Replace": map[string]string{filepath.Join(repo, "zz_govc_externs_test.go"): src}}
	ovFile := filepath.Join(scratch, "overlay_externs.json")
	writeJSON(ovFile, ov)
	cmd := exec.Command("go", "test", "-overlay", ovFile, "-vet=off", "-count=1", "-timeout", "600s", "-v", "-run", "^TestGovcExterns$", ".")
	cmd.Dir = repo
	env := []string{}
	for _, e := range os.Environ() {
		if strings.HasPrefix(e, "GOSUMDB=") || strings.HasPrefix(e, "GOTOOLCHAIN=") || strings.HasPrefix(e, "GOFLAGS=") {
			continue
		}
		env = append(env, e)
	}
	cmd.Env = append(env, "GOFLAGS=-mod=mod", "GOPROXY=off", "GOVC_EXTERNS=1")
	out, _ := cmd.CombinedOutput()
	var lines []string
	for _, l := range strings.Split(string(out), "\n") {
		if strings.HasPrefix(l, "EXTERN-OK ") || strings.HasPrefix(l, "EXTERN-VIOLATION ") {
			lines = append(lines, l)
		}
	}
	return lines
}

// runBounded runs TestGovcBounded_<prop> of /verif/replay/log_bounded_test.go (if there is one) against
// the working tree, injected with -overlay.
func runBounded(repo, verif, prop, tier, scratch string) *boundedResult {
	src := filepath.Join(verif, "replay", "log_bounded_test.go")
	raw, err := os.ReadFile(src)
	test := "TestGovcBounded_" + prop
	if err != nil || !strings.Contains(string(raw), "func "+test+"(") {
		return nil
	}
	ov := map[string]any{"Replace": map[string]string{
		filepath.Join(repo, "zz_govc_bounded_test.go"):     src,
		filepath.Join(repo, "zz_govc_replay_test.go"):      filepath.Join(verif, "replay", "log_replay_test.go"),
		filepath.Join(repo, "zz_govc_replay_util_test.go"): filepath.Join(verif, "replay", "log_replay_util_test.go"),
	}}
	ovFile := filepath.Join(scratch, "overlay_bounded.json")
	writeJSON(ovFile, ov)
	cmd := exec.Command("go", "test", "-overlay", ovFile, "-vet=off", "-count=1", "-timeout", "600s", "-v", "-run", "^"+test+"$", ".")
	cmd.Dir = repo
	env := []string{}
	for _, e := range os.Environ() {
		if strings.HasPrefix(e, "GOSUMDB=") || strings.HasPrefix(e, "GOTOOLCHAIN=") || strings.HasPrefix(e, "GOFLAGS=") {
			continue
		}
		env = append(env, e)
	}
	env = append(env, "GOFLAGS=-mod=mod", "GOPROXY=off", "GOVC_BOUNDED="+tier)
	cmd.Env = env
	out, _ := cmd.CombinedOutput()
	res := &boundedResult{test: test, output: string(out)}
	summary := ""
	for _, l := range strings.Split(string(out), "\n") {
		if strings.HasPrefix(l, "BOUNDED-VIOLATION: ") {
			res.violations = append(res.violations, strings.TrimPrefix(l, "BOUNDED-VIOLATION: "))
		} else if strings.HasPrefix(l, "BOUNDED: ") {
			summary = strings.TrimPrefix(l, "BOUNDED: ")
		}
	}
	if summary == "" && len(res.violations) == 0 {
		// the run itself broke (does not compile against the tree, panicked, timed out)
		why := "the bounded run did not complete"
		if strings.Contains(string(out), "panic:") {
			why = "the bounded run panicked"
		}
		res.violations = append(res.violations, why+": "+firstLines(string(out), 12))
	}
	res.note = "BOUNDED (not a proof, not counted in obligations/discharged): " + test + " executes the real Refresh: " + summary
	return res
}
