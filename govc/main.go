package main

import (
	"flag"

	"fmt"
	"go/types"

	"golang.org/x/tools/go/ssa"
	"os"
	"path/filepath"
	"sort"
	"strings"
	"time"
)

func usage() {
	fmt.Fprintln(os.Stderr, `usage:
  govc check <Cxx> [-tier quick|thorough] [-repo /repo] [-verif /verif] [-v]
  govc dump  <function> [-obl substring]     print the SMT query of matching obligations
  govc list                                  functions under contract and their obligations`)
	os.Exit(2)
}

func main() {
	if len(os.Args) < 2 {
		usage()
	}
	cmd := os.Args[1]
	fs := flag.NewFlagSet(cmd, flag.ExitOnError)
	tier := fs.String("tier", envOr("VERIF_TIER", "quick"), "quick or thorough")
	repo := fs.String("repo", "/repo", "repository to verify")
	verif := fs.String("verif", "/verif", "verification directory")
	verbose := fs.Bool("v", false, "verbose")
	oblFilter := fs.String("obl", "", "obligation name filter (dump)")
	noReplay := fs.Bool("noreplay", false, "skip counterexample replay")
	evOut := fs.String("evidence", "", "evidence file (default <verif>/evidence/<id>.json)")
	var pos []string
	args := os.Args[2:]
	for len(args) > 0 && !strings.HasPrefix(args[0], "-") {
		pos = append(pos, args[0])
		args = args[1:]
	}
	fs.Parse(args)
	pos = append(pos, fs.Args()...)

	switch cmd {
	case "check":
		if len(pos) != 1 {
			usage()
		}
		os.Exit(runCheck(pos[0], *tier, *repo, *verif, *verbose, *noReplay, *evOut))
	case "dump":
		if len(pos) != 1 {
			usage()
		}
		os.Exit(runDump(pos[0], *oblFilter, *repo, *verif))
	case "list":
		os.Exit(runList(*repo, *verif))
	case "renames":
		os.Exit(runRenames(*repo, *verif))
	case "ssa":
		P, err := loadProgram(*repo, *verif)
		if err != nil {
			fmt.Fprintln(os.Stderr, err)
			os.Exit(1)
		}
		for _, n := range pos {
			if fn := P.funcs[n]; fn != nil {
				fn.WriteTo(os.Stdout)
			} else {
				fmt.Println("no function", n)
			}
		}
	default:
		usage()
	}
}

func envOr(k, d string) string {
	if v := os.Getenv(k); v != "" {
		return v
	}
	return d
}

// buildVCs generates the verification conditions of the named functions.
func buildVCs(P *Program, names []string) ([]*VC, []error) {
	var vcs []*VC
	var errs []error
	for _, n := range names {
		spec := P.specNamed(n)
		if spec == nil {
			errs = append(errs, fmt.Errorf("no contract named %s", n))
			continue
		}
		type inst struct {
			fn   *ssa.Function
			name string
		}
		var insts []inst
		if fn := P.funcs[n]; fn != nil && len(fn.Blocks) > 0 && !(fn.TypeParams().Len() > 0 && len(fn.TypeArgs()) == 0) {
			insts = append(insts, inst{fn, spec.Name})
		} else {
			// a contract on a generic function or method covers every instance the program contains
			var names []string
			for k, f := range P.funcs {
				if strings.Contains(k, "[") && stripTypeArgs(k) == n && len(f.Blocks) > 0 && concreteInstance(f) {
					names = append(names, k)
				}
			}
			sort.Strings(names)
			for _, k := range names {
				insts = append(insts, inst{P.funcs[k], k})
			}
		}
		if len(insts) == 0 {
			errs = append(errs, fmt.Errorf("%s:%d: contract for %s does not resolve to a function in the current tree", shortPath(spec.File), spec.Line, n))
			continue
		}
		for _, in := range insts {
			// pass 1: discover what each block writes; pass 2: the real run
			vc := newVC(P, in.fn, spec)
			vc.name = in.name
			vc.discover = true
			if err := vc.run(); err != nil {
				errs = append(errs, err)
				continue
			}
			vc.reset()
			vc.name = in.name
			if err := vc.run(); err != nil {
				errs = append(errs, err)
				continue
			}
			vc.attachReplay()
			vcs = append(vcs, vc)
		}
	}
	return vcs, errs
}

// attachReplay: every non-canary obligation asks the model for the replay variables.
func (vc *VC) attachReplay() {
	if len(vc.spec.ReplayKeys) == 0 {
		return
	}
	env := vc.selfEnv(vc.entry, nil)
	var terms []string
	var keys []string
	for _, k := range vc.spec.ReplayKeys {
		e, err := parseExpr(vc.spec.Replay[k])
		if err != nil {
			continue
		}
		t, err := env.translate(e)
		if err != nil {
			continue
		}
		t = env.value(t)
		switch t.Sort {
		case "Str":
			keys = append(keys, k+".len")
			terms = append(terms, sx("slen", t.S))
			for i := 0; i < 40; i++ {
				keys = append(keys, fmt.Sprintf("%s[%d]", k, i))
				terms = append(terms, sx("select", sx("sarr", t.S), fmt.Sprint(i)))
			}
		default:
			keys = append(keys, k)
			terms = append(terms, t.S)
		}
	}
	vc.replayKeys = keys
	for _, o := range vc.obls {
		if !o.Canary {
			o.ReplayQ = terms
		}
	}
}

func functionsFor(P *Program, prop string) []string {
	var names []string
	for _, n := range P.spec.FuncOrder {
		if strings.HasSuffix(n, "@B") {
			continue
		}
		s := P.specNamed(n)
		if s.Extern || s.IsIface || s.Trusted {
			continue
		}
		for _, p := range s.Props {
			if p == prop {
				names = append(names, n)
				break
			}
		}
	}
	return names
}

func runDump(fn, filter, repo, verif string) int {
	P, err := loadProgram(repo, verif)
	if err != nil {
		fmt.Fprintln(os.Stderr, err)
		return 1
	}
	vcs, errs := buildVCs(P, []string{fn})
	for _, e := range errs {
		fmt.Fprintln(os.Stderr, "error:", e)
	}
	for _, vc := range vcs {
		for _, n := range vc.notes {
			fmt.Fprintln(os.Stderr, "note:", n)
		}
		for _, o := range vc.obls {
			if filter == "" {
				fmt.Printf("%-70s %v %s\n", o.Name, o.Props, o.Pos)
				continue
			}
			if strings.Contains(o.Name, filter) {
				fmt.Println(vc.smtText(o))
			}
		}
	}
	if len(errs) > 0 {
		return 1
	}
	return 0
}

func runList(repo, verif string) int {
	P, err := loadProgram(repo, verif)
	if err != nil {
		fmt.Fprintln(os.Stderr, err)
		return 1
	}
	var names []string
	for _, n := range P.spec.FuncOrder {
		s := P.spec.Funcs[n]
		if !s.Extern && !s.IsIface && !s.Trusted {
			names = append(names, n)
		}
	}
	sort.Strings(names)
	start := time.Now()
	vcs, errs := buildVCs(P, names)
	for _, e := range errs {
		fmt.Println("error:", e)
	}
	total := 0
	for _, vc := range vcs {
		fmt.Printf("%-50s %3d obligations  props=%v\n", vc.name, len(vc.obls), vc.spec.Props)
		total += len(vc.obls)
		for _, n := range vc.notes {
			fmt.Println("    note:", n)
		}
	}
	fmt.Printf("%d functions, %d obligations, generated in %s\n", len(vcs), total, time.Since(start))
	_ = filepath.Join
	return 0
}

// concreteInstance: every type argument of the instantiation (and of the receiver) is a concrete type.
func concreteInstance(f *ssa.Function) bool {
	hasParam := false
	var visit func(t types.Type, depth int)
	visit = func(t types.Type, depth int) {
		if depth > 6 || t == nil {
			return
		}
		switch u := types.Unalias(t).(type) {
		case *types.TypeParam:
			hasParam = true
		case *types.Named:
			if ta := u.TypeArgs(); ta != nil {
				for i := 0; i < ta.Len(); i++ {
					visit(ta.At(i), depth+1)
				}
			}
		case *types.Pointer:
			visit(u.Elem(), depth+1)
		case *types.Slice:
			visit(u.Elem(), depth+1)
		}
	}
	for _, ta := range f.TypeArgs() {
		visit(ta, 0)
	}
	if r := f.Signature.Recv(); r != nil {
		visit(r.Type(), 0)
	}
	for i := 0; i < f.Signature.Params().Len(); i++ {
		visit(f.Signature.Params().At(i).Type(), 0)
	}
	return !hasParam
}
