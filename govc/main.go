package main

import (
	"flag"
	"fmt"
	"os"
	"path/filepath"
	"sort"
	"strings"
	"time"
)

func usage() {
	fmt.Fprintln(os.Stderr, `usage:
  govc check <Cxx> [-tier quick|thorough] [-repo /repo] [-verif /verif] [-v]
  govc dump  <function> [-obl substring]     print the SMT query of matching obligations
  govc list                                  functions under contract and their obligations`)
	os.Exit(2)
}

func main() {
	if len(os.Args) < 2 {
		usage()
	}
	cmd := os.Args[1]
	fs := flag.NewFlagSet(cmd, flag.ExitOnError)
	tier := fs.String("tier", envOr("VERIF_TIER", "quick"), "quick or thorough")
	repo := fs.String("repo", "/repo", "repository to verify")
	verif := fs.String("verif", "/verif", "verification directory")
	verbose := fs.Bool("v", false, "verbose")
	oblFilter := fs.String("obl", "", "obligation name filter (dump)")
	noReplay := fs.Bool("noreplay", false, "skip counterexample replay")
	evOut := fs.String("evidence", "", "evidence file (default <verif>/evidence/<id>.json)")
	var pos []string
	args := os.Args[2:]
	for len(args) > 0 && !strings.HasPrefix(args[0], "-") {
		pos = append(pos, args[0])
		args = args[1:]
	}
	fs.Parse(args)
	pos = append(pos, fs.Args()...)

	switch cmd {
	case "check":
		if len(pos) != 1 {
			usage()
		}
		os.Exit(runCheck(pos[0], *tier, *repo, *verif, *verbose, *noReplay, *evOut))
	case "dump":
		if len(pos) != 1 {
			usage()
		}
		os.Exit(runDump(pos[0], *oblFilter, *repo, *verif))
	case "list":
		os.Exit(runList(*repo, *verif))
	case "ssa":
		P, err := loadProgram(*repo, *verif)
		if err != nil {
			fmt.Fprintln(os.Stderr, err)
			os.Exit(1)
		}
		for _, n := range pos {
			if fn := P.funcs[n]; fn != nil {
				fn.WriteTo(os.Stdout)
			} else {
				fmt.Println("no function", n)
			}
		}
	default:
		usage()
	}
}

func envOr(k, d string) string {
	if v := os.Getenv(k); v != "" {
		return v
	}
	return d
}

// buildVCs generates the verification conditions of the named functions.
func buildVCs(P *Program, names []string) ([]*VC, []error) {
	var vcs []*VC
	var errs []error
	for _, n := range names {
		spec := P.specNamed(n)
		if spec == nil {
			errs = append(errs, fmt.Errorf("no contract named %s", n))
			continue
		}
		fn := P.funcs[n]
		if fn == nil {
			errs = append(errs, fmt.Errorf("%s:%d: contract for %s does not resolve to a function in the current tree", shortPath(spec.File), spec.Line, n))
			continue
		}
		if len(fn.Blocks) == 0 {
			errs = append(errs, fmt.Errorf("%s has no body to verify", n))
			continue
		}
		// pass 1: discover what each block writes; pass 2: the real run
		vc := newVC(P, fn, spec)
		vc.discover = true
		if err := vc.run(); err != nil {
			errs = append(errs, err)
			continue
		}
		vc.reset()
		if err := vc.run(); err != nil {
			errs = append(errs, err)
			continue
		}
		vc.attachReplay()
		vcs = append(vcs, vc)
	}
	return vcs, errs
}

// attachReplay: every non-canary obligation asks the model for the replay variables.
func (vc *VC) attachReplay() {
	if len(vc.spec.ReplayKeys) == 0 {
		return
	}
	env := vc.selfEnv(vc.entry, nil)
	var terms []string
	var keys []string
	for _, k := range vc.spec.ReplayKeys {
		e, err := parseExpr(vc.spec.Replay[k])
		if err != nil {
			continue
		}
		t, err := env.translate(e)
		if err != nil {
			continue
		}
		t = env.value(t)
		switch t.Sort {
		case "Str":
			keys = append(keys, k+".len")
			terms = append(terms, sx("slen", t.S))
			for i := 0; i < 40; i++ {
				keys = append(keys, fmt.Sprintf("%s[%d]", k, i))
				terms = append(terms, sx("select", sx("sarr", t.S), fmt.Sprint(i)))
			}
		default:
			keys = append(keys, k)
			terms = append(terms, t.S)
		}
	}
	vc.replayKeys = keys
	for _, o := range vc.obls {
		if !o.Canary {
			o.ReplayQ = terms
		}
	}
}

func functionsFor(P *Program, prop string) []string {
	var names []string
	for _, n := range P.spec.FuncOrder {
		if strings.HasSuffix(n, "@B") {
			continue
		}
		s := P.specNamed(n)
		if s.Extern || s.IsIface || s.Trusted {
			continue
		}
		for _, p := range s.Props {
			if p == prop {
				names = append(names, n)
				break
			}
		}
	}
	return names
}

func runDump(fn, filter, repo, verif string) int {
	P, err := loadProgram(repo, verif)
	if err != nil {
		fmt.Fprintln(os.Stderr, err)
		return 1
	}
	vcs, errs := buildVCs(P, []string{fn})
	for _, e := range errs {
		fmt.Fprintln(os.Stderr, "error:", e)
	}
	for _, vc := range vcs {
		for _, n := range vc.notes {
			fmt.Fprintln(os.Stderr, "note:", n)
		}
		for _, o := range vc.obls {
			if filter == "" {
				fmt.Printf("%-70s %v %s\n", o.Name, o.Props, o.Pos)
				continue
			}
			if strings.Contains(o.Name, filter) {
				fmt.Println(vc.smtText(o))
			}
		}
	}
	if len(errs) > 0 {
		return 1
	}
	return 0
}

func runList(repo, verif string) int {
	P, err := loadProgram(repo, verif)
	if err != nil {
		fmt.Fprintln(os.Stderr, err)
		return 1
	}
	var names []string
	for _, n := range P.spec.FuncOrder {
		s := P.spec.Funcs[n]
		if !s.Extern && !s.IsIface && !s.Trusted {
			names = append(names, n)
		}
	}
	sort.Strings(names)
	start := time.Now()
	vcs, errs := buildVCs(P, names)
	for _, e := range errs {
		fmt.Println("error:", e)
	}
	total := 0
	for _, vc := range vcs {
		fmt.Printf("%-50s %3d obligations  props=%v\n", vc.name, len(vc.obls), vc.spec.Props)
		total += len(vc.obls)
		for _, n := range vc.notes {
			fmt.Println("    note:", n)
		}
	}
	fmt.Printf("%d functions, %d obligations, generated in %s\n", len(vcs), total, time.Since(start))
	_ = filepath.Join
	return 0
}
