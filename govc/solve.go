package main

import (
	"bytes"
	"context"
	"fmt"
	"os"
	"os/exec"
	"path/filepath"
	"regexp"
	"strings"
	"sync"
	"sync/atomic"
	"time"
)

const maxVCBytes = 1 << 20

// relaxText drops every quantified assertion (used only to find candidate
// counterexamples, which are then replayed on the real code).
func relaxText(s string) string {
	var b strings.Builder
	for _, sexp := range topLevelSexps(s) {
		if strings.HasPrefix(sexp, "(assert") && strings.Contains(sexp, "(forall") {
			continue
		}
		if strings.HasPrefix(sexp, "(define-fun str_wf") {
			b.WriteString("(define-fun str_wf ((s Str)) Bool (and (>= (slen s) 0) (<= (slen s) 4611686018427387903)))\n")
			continue
		}
		b.WriteString(sexp)
		b.WriteByte('\n')
	}
	return b.String()
}

// splitGoal breaks a goal into conjuncts that can be discharged separately: (and a b) gives a, b;
// (=> g (and a b)) gives (=> g a), (=> g b); (forall vs (! (=> g (and a b)) pats)) gives one quantified
// formula per conjunct.  Proving every part proves the goal; solvers that wander on the negation of a
// conjunction (a disjunction of refutable cases) decide the parts at once.
func splitGoal(goal string) []string {
	toks := sexpTokens(goal)
	if len(toks) == 0 || toks[0] != "(" {
		return []string{goal}
	}
	defer func() { recover() }()
	p := 0
	n := parseSexp(toks, &p)
	if p != len(toks) {
		return []string{goal}
	}
	var split func(n *sexpNode, depth int) []*sexpNode
	split = func(n *sexpNode, depth int) []*sexpNode {
		if depth > 6 || len(n.kids) == 0 {
			return []*sexpNode{n}
		}
		head := n.kids[0].atom
		switch {
		case head == "and":
			var out []*sexpNode
			for _, k := range n.kids[1:] {
				out = append(out, split(k, depth+1)...)
			}
			return out
		case head == "=>" && len(n.kids) == 3:
			var out []*sexpNode
			for _, c := range split(n.kids[2], depth+1) {
				out = append(out, &sexpNode{kids: []*sexpNode{n.kids[0], n.kids[1], c}})
			}
			return out
		case head == "forall" && len(n.kids) == 3:
			body := n.kids[2]
			if len(body.kids) >= 2 && body.kids[0].atom == "!" {
				inner := split(body.kids[1], depth+1)
				if len(inner) == 1 {
					return []*sexpNode{n}
				}
				var out []*sexpNode
				for _, c := range inner {
					nb := &sexpNode{kids: append([]*sexpNode{body.kids[0], c}, body.kids[2:]...)}
					out = append(out, &sexpNode{kids: []*sexpNode{n.kids[0], n.kids[1], nb}})
				}
				return out
			}
			inner := split(body, depth+1)
			if len(inner) == 1 {
				return []*sexpNode{n}
			}
			var out []*sexpNode
			for _, c := range inner {
				out = append(out, &sexpNode{kids: []*sexpNode{n.kids[0], n.kids[1], c}})
			}
			return out
		}
		return []*sexpNode{n}
	}
	parts := split(n, 0)
	if len(parts) <= 1 || len(parts) > 12 {
		return []string{goal}
	}
	var out []string
	for _, x := range parts {
		out = append(out, x.String())
	}
	return out
}

// smtText renders the query for obligation o of vc.
func (vc *VC) smtText(o *Obligation) string {
	var b strings.Builder
	b.WriteString("(set-option :produce-models true)\n(set-logic ALL)\n")
	b.WriteString(vc.P.prelude.textFor(vc))
	b.WriteString("; ---- declarations of " + vc.name + "\n")
	for _, d := range vc.decls {
		b.WriteString(d)
		b.WriteByte('\n')
	}
	for _, p := range vc.preamble {
		b.WriteString(p)
		b.WriteByte('\n')
	}
	if vc.hasAlloc {
		// everything reachable in the entry heap existed before the call
		for _, name := range sortedKeys(vc.stateSort) {
			sortName := vc.stateSort[name]
			c := fmt.Sprintf("%s@0", name)
			if !vc.declared[c] {
				continue
			}
			heapArr := strings.HasPrefix(name, "F_") || strings.HasPrefix(name, "cell_") || strings.HasPrefix(name, "el_") || strings.HasPrefix(name, "mv_")
			switch {
			case sortName == "(Array Int Int)" && (strings.HasPrefix(name, "F_") || strings.HasPrefix(name, "cell_Int")):
				fmt.Fprintf(&b, "(assert (forall ((x Int)) (! (=> (is_old x) (is_old (select %s x))) :pattern ((select %s x)))))\n", c, c)
			case sortName == "(Array Int Iface)" && heapArr:
				fmt.Fprintf(&b, "(assert (forall ((x Int)) (! (=> (is_old x) (is_old (if_val (select %s x)))) :pattern ((select %s x)))))\n", c, c)
			case heapArr && strings.HasPrefix(sortName, "(Array Int (Array ") && strings.HasSuffix(sortName, " Int))"):
				k := splitSortArgs(splitSortArgs(sortName)[1])[0]
				fmt.Fprintf(&b, "(assert (forall ((x Int) (k %s)) (! (=> (is_old x) (is_old (select (select %s x) k))) :pattern ((select (select %s x) k)))))\n", k, c, c)
			case heapArr && strings.HasPrefix(sortName, "(Array Int (Array ") && strings.HasSuffix(sortName, " Iface))"):
				k := splitSortArgs(splitSortArgs(sortName)[1])[0]
				fmt.Fprintf(&b, "(assert (forall ((x Int) (k %s)) (! (=> (is_old x) (is_old (if_val (select (select %s x) k)))) :pattern ((select (select %s x) k)))))\n", k, c, c)
			case sortName == "(Array Int Slice)" && heapArr:
				fmt.Fprintf(&b, "(assert (forall ((x Int)) (! (=> (is_old x) (is_old (sl_ref (select %s x)))) :pattern ((select %s x)))))\n", c, c)
			case strings.HasPrefix(name, "g_") && sortName == "Slice":
				fmt.Fprintf(&b, "(assert (is_old (sl_ref %s)))\n", c)
			case strings.HasPrefix(name, "g_") && sortName == "Int":
				fmt.Fprintf(&b, "(assert (is_old %s))\n", c)
			case strings.HasPrefix(name, "g_") && sortName == "Iface":
				fmt.Fprintf(&b, "(assert (is_old (if_val %s)))\n", c)
			}
		}
		b.WriteString("(assert (is_old 0))\n")
	}
	b.WriteString("; ---- path facts up to the obligation\n")
	for i := 0; i < o.Seq; i++ {
		it := vc.items[i]
		if it.blk != nil && o.blk != nil && vc.reach != nil && !vc.reach[it.blk][o.blk] {
			continue // recorded on a path that cannot lead to this obligation
		}
		if it.obl != nil {
			if it.obl.Canary || o.Canary {
				continue // a vacuity canary tests the assumptions only, never unproved obligations
			}
			if it.obl.Skip {
				continue // belongs to another property only: not proved in this run, so not assumed either
			}
			if strings.HasSuffix(it.obl.Kind, ".established") && it.blk != o.blk {
				continue // subsumed by the invariant assumed at the loop head
			}
			fmt.Fprintf(&b, "(assert %s) ; earlier obligation %s\n", implies(it.obl.Guard, it.obl.Goal), it.obl.Name)
		} else {
			fmt.Fprintf(&b, "(assert %s)\n", it.assume)
		}
	}
	fmt.Fprintf(&b, "; ---- obligation %s\n; %s\n", o.Name, strings.ReplaceAll(o.Text, "\n", " "))
	fmt.Fprintf(&b, "(assert %s)\n(assert (not %s))\n(check-sat)\n", o.Guard, o.Goal)
	if len(o.ReplayQ) > 0 {
		fmt.Fprintf(&b, "(get-value (%s))\n", strings.Join(o.ReplayQ, " "))
	}
	return vc.fillStructSorts(b.String())
}

type solverSpec struct {
	name string
	argv func(file string, timeout time.Duration) []string
}

var solvers = []solverSpec{
	{"z3-5.1.0", func(f string, t time.Duration) []string {
		return []string{"z3-new", fmt.Sprintf("-T:%d", int(t.Seconds())+1), f}
	}},
	{"z3-4.8.12", func(f string, t time.Duration) []string {
		return []string{"z3", fmt.Sprintf("-T:%d", int(t.Seconds())+1), f}
	}},
	{"cvc5-1.0", func(f string, t time.Duration) []string {
		return []string{"cvc5", fmt.Sprintf("--tlimit=%d", t.Milliseconds()), "--produce-models", f}
	}},
}

type solveResult struct {
	solver string
	result string
	output string
	ms     int64
}

func runSolver(ctx context.Context, s solverSpec, file string, timeout time.Duration) solveResult {
	start := time.Now()
	argv := s.argv(file, timeout)
	c, cancel := context.WithTimeout(ctx, timeout+2*time.Second)
	defer cancel()
	cmd := exec.CommandContext(c, argv[0], argv[1:]...)
	var out bytes.Buffer
	cmd.Stdout = &out
	cmd.Stderr = &out
	_ = cmd.Run()
	txt := out.String()
	// warnings (e.g. a pattern the solver chooses to ignore) precede the verdict
	for strings.HasPrefix(txt, "WARNING") {
		i := strings.Index(txt, "\n")
		if i < 0 {
			break
		}
		txt = txt[i+1:]
	}
	first := strings.TrimSpace(strings.SplitN(txt, "\n", 2)[0])
	res := "error"
	if strings.HasPrefix(first, "(error") && !strings.Contains(first, "model is not available") {
		// a malformed query must never be mistaken for a verdict
		return solveResult{s.name, "error", txt, time.Since(start).Milliseconds()}
	}
	switch {
	case first == "unsat":
		res = "unsat"
	case first == "sat":
		res = "sat"
	case first == "unknown":
		res = "unknown"
	case first == "timeout" || strings.Contains(txt, "timeout") || c.Err() != nil:
		res = "timeout"
	case strings.Contains(txt, "interrupted"):
		res = "timeout"
	}
	return solveResult{s.name, res, txt, time.Since(start).Milliseconds()}
}

// discharge races the solvers on one obligation.
func discharge(o *Obligation, file string, timeout time.Duration, all bool) []solveResult {
	ctx, cancel := context.WithCancel(context.Background())
	defer cancel()
	ch := make(chan solveResult, len(solvers))
	var wg sync.WaitGroup
	launch := func(s solverSpec) {
		wg.Add(1)
		go func() {
			defer wg.Done()
			ch <- runSolver(ctx, s, file, timeout)
		}()
	}
	launch(solvers[0])
	var results []solveResult
	pending := 1
	launchedRest := false
	var timer <-chan time.Time
	if o.Canary {
		timer = nil
	} else if all {
		for _, s := range solvers[1:] {
			launch(s)
			pending++
		}
		launchedRest = true
	} else {
		timer = time.After(1500 * time.Millisecond)
	}
	for pending > 0 {
		select {
		case r := <-ch:
			pending--
			results = append(results, r)
			if !all && (r.result == "unsat" || r.result == "sat") {
				cancel()
				go func() { wg.Wait() }()
				return results
			}
			if !all && !launchedRest && !o.Canary {
				for _, s := range solvers[1:] {
					launch(s)
					pending++
				}
				launchedRest = true
			}
		case <-timer:
			timer = nil
			if !launchedRest {
				for _, s := range solvers[1:] {
					launch(s)
					pending++
				}
				launchedRest = true
			}
		}
	}
	return results
}

var valueRe = regexp.MustCompile(`^\(*\s*`)

// parseModel extracts (term value) pairs from a get-value answer.
func parseModel(out string, terms []string) map[string]string {
	m := map[string]string{}
	idx := strings.Index(out, "\n")
	if idx < 0 {
		return m
	}
	body := out[idx+1:]
	toks := sexpTokens(body)
	if len(toks) == 0 || toks[0] != "(" {
		return m
	}
	defer func() { recover() }()
	p := 0
	n := parseSexp(toks, &p)
	for i, k := range n.kids {
		if len(k.kids) == 2 && i < len(terms) {
			m[terms[i]] = k.kids[1].String()
		}
	}
	return m
}

// solveAll discharges the obligations in parallel; returns the scratch directory used.
func solveAll(vcs []*VC, obls []*Obligation, vcOf map[*Obligation]*VC, tier string, scratch string) {
	timeout := 30 * time.Second
	if v := os.Getenv("GOVC_TIMEOUT"); v != "" {
		if d, err := time.ParseDuration(v); err == nil {
			timeout = d
		}
	}
	if tier == "thorough" {
		timeout = 60 * time.Second
	}
	sem := make(chan struct{}, 12)
	var wg sync.WaitGroup
	// once a run has many undecided obligations (a tree that breaks a whole family of functions), the
	// remaining ones get a short time limit: the violations to report are already there
	var undecided int32
	for i, o := range obls {
		wg.Add(1)
		go func(i int, o *Obligation) {
			defer wg.Done()
			sem <- struct{}{}
			defer func() { <-sem }()
			vc := vcOf[o]
			if o.Static != "" {
				o.Solver = "syntactic check of the SSA form"
				if o.Kind == "initial" {
					o.Solver = "execution of the input-free package initialisation"
				}
				if o.Static == "holds" {
					o.Result = "unsat"
				} else {
					o.Result = "sat"
					o.Output = "decided by inspection of the function's instructions: " + o.Text
				}
				return
			}
			text := vc.smtText(o)
			file := filepath.Join(scratch, fmt.Sprintf("o%04d.smt2", i))
			if os.Getenv("GOVC_KEEP") != "" {
				text = "; obligation " + o.Name + "\n" + text
			}
			if len(text) > maxVCBytes {
				o.Result = "error"
				o.Output = fmt.Sprintf("verification condition too large (%d bytes)", len(text))
				return
			}
			if err := os.WriteFile(file, []byte(text), 0644); err != nil {
				o.Result = "error"
				o.Output = err.Error()
				return
			}
			to := timeout
			if o.Canary {
				to = 1 * time.Second
			} else if atomic.LoadInt32(&undecided) > 24 && to > 3*time.Second {
				to = 3 * time.Second
			}
			rs := discharge(o, file, to, tier == "thorough" && !o.Canary)
			summarize(o, rs)
			if !o.Canary && o.Result != "unsat" {
				atomic.AddInt32(&undecided, 1)
			}
			if !o.Canary && o.Result != "unsat" && o.Result != "sat" && atomic.LoadInt32(&undecided) <= 24 {
				// undecided: try the conjuncts of the goal one by one (every part proved = the goal proved)
				if parts := splitGoal(o.Goal); len(parts) > 1 {
					marker := fmt.Sprintf("(assert (not %s))\n(check-sat)", o.Goal)
					if strings.Contains(text, marker) {
						all := true
						var slowest int64
						solver := ""
						for pi, part := range parts {
							ptext := strings.Replace(text, marker, fmt.Sprintf("(assert (not %s))\n(check-sat)", part), 1)
							if i := strings.Index(ptext, "(get-value"); i >= 0 {
								ptext = ptext[:i]
							}
							pfile := filepath.Join(scratch, fmt.Sprintf("o%04d_part%d.smt2", i, pi))
							if os.WriteFile(pfile, []byte(ptext), 0644) != nil {
								all = false
								break
							}
							po := &Obligation{Name: o.Name}
							prs := discharge(po, pfile, to, false)
							summarize(po, prs)
							if po.Result != "unsat" {
								all = false
								break
							}
							if po.Millis > slowest {
								slowest = po.Millis
							}
							solver = po.Solver
						}
						if all {
							o.Result = "unsat"
							o.Solver = solver + fmt.Sprintf(" (goal split into %d conjuncts)", len(parts))
							o.Millis = slowest
							o.Output = ""
							o.Model = nil
						}
					}
				}
			}
			if !o.Canary && o.Result != "unsat" && o.Result != "sat" && len(o.ReplayQ) > 0 {
				// look for a candidate counterexample without the quantified axioms
				rfile := filepath.Join(scratch, fmt.Sprintf("o%04d_relaxed.smt2", i))
				rt := relaxText(text)
				// prefer short strings and small numbers in the candidate
				var small []string
				for _, q := range o.ReplayQ {
					if strings.HasPrefix(q, "(slen ") {
						small = append(small, fmt.Sprintf("(assert (<= %s 24))", q))
					}
				}
				bounded := strings.Replace(rt, "(check-sat)", strings.Join(small, "\n")+"\n(check-sat)", 1)
				if os.WriteFile(rfile, []byte(bounded), 0644) == nil {
					r := runSolver(context.Background(), solvers[0], rfile, 5*time.Second)
					if r.result != "sat" && len(small) > 0 && os.WriteFile(rfile, []byte(rt), 0644) == nil {
						r = runSolver(context.Background(), solvers[0], rfile, 5*time.Second)
					}
					if r.result == "sat" {
						if m := parseModel(r.output, o.ReplayQ); len(m) > 0 {
							o.Model = m
							o.Output += "\ncandidate model from the relaxed query (quantified axioms dropped), to be confirmed by replay"
						}
					}
				}
			}
		}(i, o)
	}
	wg.Wait()
}

func summarize(o *Obligation, rs []solveResult) {
	var unsat, sat *solveResult
	var total int64
	var outs []string
	for i := range rs {
		r := &rs[i]
		if r.ms > total {
			total = r.ms
		}
		outs = append(outs, fmt.Sprintf("%s: %s (%d ms)", r.solver, r.result, r.ms))
		switch r.result {
		case "unsat":
			if unsat == nil || r.ms < unsat.ms {
				unsat = r
			}
		case "sat":
			if sat == nil {
				sat = r
			}
		}
	}
	o.Millis = total
	switch {
	case unsat != nil && sat != nil:
		o.Result = "disagree"
		o.Solver = unsat.solver + " vs " + sat.solver
		o.Output = strings.Join(outs, "; ")
	case unsat != nil:
		o.Result = "unsat"
		o.Solver = unsat.solver
		o.Millis = unsat.ms
	case sat != nil:
		o.Result = "sat"
		o.Solver = sat.solver
		o.Output = sat.output
		o.Model = parseModel(sat.output, o.ReplayQ)
	default:
		o.Result = "unknown"
		nerr := 0
		for _, r := range rs {
			if r.result == "error" {
				nerr++
			}
		}
		if nerr == len(rs) && nerr > 0 {
			o.Result = "error" // no solver could even read the query
		}
		o.Output = strings.Join(outs, "; ")
		// an "unknown" answer of z3 may still carry a candidate model
		for i := range rs {
			if rs[i].result == "unknown" {
				if m := parseModel(rs[i].output, o.ReplayQ); len(m) > 0 {
					o.Model = m
					o.Output += "\ncandidate model from " + rs[i].solver
					break
				}
			}
		}
		for _, r := range rs {
			if r.result == "error" {
				o.Output += "\n" + r.solver + ": " + firstLines(r.output, 5)
			}
		}
	}
}

func firstLines(s string, n int) string {
	ls := strings.Split(s, "\n")
	if len(ls) > n {
		ls = ls[:n]
	}
	return strings.Join(ls, "\n")
}

// fillStructSorts replaces the struct-sort placeholder of a code-free query by the declarations of exactly
// the struct sorts the query mentions (and those they contain).
func (vc *VC) fillStructSorts(text string) string {
	const mark = "; @@STRUCT-SORTS@@\n"
	if !strings.Contains(text, mark) {
		return text
	}
	ss := vc.ss()
	rest := strings.Replace(text, mark, "", 1)
	need := map[string]bool{}
	for changed := true; changed; {
		changed = false
		for _, n := range ss.structOrder {
			if need[n] {
				continue
			}
			used := strings.Contains(rest, n)
			if !used {
				for m := range need {
					if strings.Contains(ss.structDecl[m], n) {
						used = true
						break
					}
				}
			}
			if used {
				need[n] = true
				changed = true
			}
		}
	}
	var b strings.Builder
	for _, n := range ss.structOrder {
		if need[n] {
			b.WriteString(ss.structDecl[n])
			b.WriteByte('\n')
		}
	}
	return strings.Replace(text, mark, b.String(), 1)
}
