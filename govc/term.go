package main

import (
	"fmt"
	"go/types"
	"hash/fnv"
	"regexp"
	"sort"
	"strings"
)

// Term is an SMT-LIB term together with its sort and (when it stands for a Go
// value) its Go type.
type Term struct {
	S    string
	Sort string
	T    types.Type
	Loc  *Loc   // set when the term is an address the engine tracks itself
	Prov string // provenance of a channel value: "Struct.field" it was loaded from
}

// Loc describes where an address-valued SSA value points to.
type Loc struct {
	Kind   int
	Base   Term         // object ref (locField), slice value (locElem), cell ref (locCell)
	Struct types.Type   // struct type owning the field (locField)
	Field  int          // field index (locField)
	Idx    Term         // element index (locElem)
	ElemT  types.Type   // type of the pointee
	Sub    []int        // path of struct-value sub-fields below an element / cell value
	SubT   []types.Type // struct types along Sub
	Global string       // state variable name (locGlobal)
}

const (
	locField = iota
	locElem
	locCell
	locGlobal
)

func sx(op string, args ...string) string {
	return "(" + op + " " + strings.Join(args, " ") + ")"
}

func and(xs ...string) string {
	var ys []string
	for _, x := range xs {
		if x == "true" || x == "" {
			continue
		}
		if x == "false" {
			return "false"
		}
		ys = append(ys, x)
	}
	if len(ys) == 0 {
		return "true"
	}
	if len(ys) == 1 {
		return ys[0]
	}
	return sx("and", ys...)
}

func or(xs ...string) string {
	var ys []string
	for _, x := range xs {
		if x == "false" || x == "" {
			continue
		}
		if x == "true" {
			return "true"
		}
		ys = append(ys, x)
	}
	if len(ys) == 0 {
		return "false"
	}
	if len(ys) == 1 {
		return ys[0]
	}
	return sx("or", ys...)
}

func not(x string) string {
	if x == "true" {
		return "false"
	}
	if x == "false" {
		return "true"
	}
	return sx("not", x)
}

func implies(a, b string) string {
	if a == "true" {
		return b
	}
	if b == "true" || a == "false" {
		return "true"
	}
	return sx("=>", a, b)
}

func intLit(v int64) string {
	if v < 0 {
		return fmt.Sprintf("(- %d)", -v)
	}
	return fmt.Sprintf("%d", v)
}

func bigLit(s string) string {
	if strings.HasPrefix(s, "-") {
		return "(- " + s[1:] + ")"
	}
	return s
}

// ---------------------------------------------------------------------------
// Sorts

// Sorts keeps the datatype declarations generated from Go struct types and
// the state variables (heap arrays) the verification conditions mention.
type Sorts struct {
	structNames map[string]string // types.Type string -> datatype name
	structDecl  map[string]string // datatype name -> declaration
	structOrder []string
	structType  map[string]*types.Struct
	typeTags    map[string]int // dynamic type string -> tag
	tagOrder    []string
}

func newSorts() *Sorts {
	return &Sorts{
		structNames: map[string]string{},
		structDecl:  map[string]string{},
		structType:  map[string]*types.Struct{},
		typeTags:    map[string]int{},
	}
}

func mangle(s string) string {
	var b strings.Builder
	for _, r := range s {
		switch {
		case r >= 'a' && r <= 'z', r >= 'A' && r <= 'Z', r >= '0' && r <= '9', r == '_':
			b.WriteRune(r)
		case r == '.' || r == '/':
			b.WriteByte('_')
		case r == '*':
			b.WriteString("P")
		case r == '[' || r == ']':
			b.WriteString("L")
		default:
		}
	}
	out := b.String()
	if len(out) > 60 {
		h := fnv.New32a()
		h.Write([]byte(s))
		out = out[len(out)-40:] + fmt.Sprintf("_%x", h.Sum32())
	}
	return out
}

func shortTypeName(t types.Type) string {
	s := types.TypeString(t, func(p *types.Package) string {
		if p.Path() == "github.com/go-spring/log" {
			return ""
		}
		return p.Name()
	})
	return s
}

// structKey gives the name under which the fields of struct type t live.
func (ss *Sorts) structKey(t types.Type) string {
	t = types.Unalias(t)
	if n, ok := t.(*types.Named); ok {
		return mangle(shortTypeName(n))
	}
	return "anon_" + mangle(shortTypeName(t))
}

var byteRuneRe = regexp.MustCompile(`\b(byte|rune)\b`)

func (ss *Sorts) typeTag(t types.Type) int {
	// byte and rune are aliases: one tag per underlying type
	k := byteRuneRe.ReplaceAllStringFunc(shortTypeName(t), func(m string) string {
		if m == "byte" {
			return "uint8"
		}
		return "int32"
	})
	k = strings.ReplaceAll(k, "interface{}", "any")
	if v, ok := ss.typeTags[k]; ok {
		return v
	}
	v := len(ss.typeTags) + 1
	ss.typeTags[k] = v
	ss.tagOrder = append(ss.tagOrder, k)
	return v
}

func isStruct(t types.Type) (*types.Struct, bool) {
	s, ok := t.Underlying().(*types.Struct)
	return s, ok
}

// sortOf maps a Go type to an SMT sort.
func (ss *Sorts) sortOf(t types.Type) string {
	t = types.Unalias(t)
	switch u := t.Underlying().(type) {
	case *types.Basic:
		switch {
		case u.Info()&types.IsBoolean != 0:
			return "Bool"
		case u.Info()&types.IsString != 0:
			return "Str"
		case u.Kind() == types.UntypedNil:
			return "Int"
		}
		return "Int"
	case *types.Pointer, *types.Map, *types.Chan, *types.Signature:
		return "Int"
	case *types.Slice:
		return "Slice"
	case *types.Interface:
		return "Iface"
	case *types.Array:
		return "(Array Int " + ss.sortOf(u.Elem()) + ")"
	case *types.Struct:
		key := ss.structKey(t)
		name := "S_" + key
		if _, ok := ss.structDecl[name]; ok {
			return name
		}
		ss.structDecl[name] = "" // in progress
		var fs []string
		for i := 0; i < u.NumFields(); i++ {
			fs = append(fs, fmt.Sprintf("(%s_%d %s)", name, i, ss.sortOf(u.Field(i).Type())))
		}
		if len(fs) == 0 {
			ss.structDecl[name] = fmt.Sprintf("(declare-datatypes ((%s 0)) (((mk_%s))))", name, name)
		} else {
			ss.structDecl[name] = fmt.Sprintf("(declare-datatypes ((%s 0)) (((mk_%s %s))))", name, name, strings.Join(fs, " "))
		}
		ss.structOrder = append(ss.structOrder, name)
		ss.structType[name] = u
		return name
	case *types.Tuple:
		return "Tuple"
	case *types.TypeParam:
		return "Int"
	}
	panic("sortOf: unsupported type " + t.String())
}

func (ss *Sorts) decls() string {
	var b strings.Builder
	for _, n := range ss.structOrder {
		b.WriteString(ss.structDecl[n])
		b.WriteByte('\n')
	}
	return b.String()
}

// zero value of a sort
func (ss *Sorts) zero(t types.Type) string {
	t = types.Unalias(t)
	switch u := t.Underlying().(type) {
	case *types.Basic:
		switch {
		case u.Info()&types.IsBoolean != 0:
			return "false"
		case u.Info()&types.IsString != 0:
			return "str_empty"
		}
		return "0"
	case *types.Slice:
		return "slice_nil"
	case *types.Interface:
		return "iface_nil"
	case *types.Array:
		return fmt.Sprintf("((as const %s) %s)", ss.sortOf(t), ss.zero(u.Elem()))
	case *types.Struct:
		name := ss.sortOf(t)
		if u.NumFields() == 0 {
			return "mk_" + name
		}
		var fs []string
		for i := 0; i < u.NumFields(); i++ {
			fs = append(fs, ss.zero(u.Field(i).Type()))
		}
		return sx("mk_"+name, fs...)
	}
	return "0"
}

// intRange returns the range predicate for integer-typed values.
func intBounds(t types.Type) (lo, hi string, ok bool) {
	b, isb := types.Unalias(t).Underlying().(*types.Basic)
	if !isb {
		return "", "", false
	}
	switch b.Kind() {
	case types.Int8:
		return "(- 128)", "127", true
	case types.Int16:
		return "(- 32768)", "32767", true
	case types.Int32:
		return "(- 2147483648)", "2147483647", true
	case types.Int, types.Int64:
		return "(- 9223372036854775808)", "9223372036854775807", true
	case types.Uint8:
		return "0", "255", true
	case types.Uint16:
		return "0", "65535", true
	case types.Uint32:
		return "0", "4294967295", true
	case types.Uint, types.Uint64, types.Uintptr, types.Float64, types.Float32:
		return "0", "18446744073709551615", true
	case types.UntypedInt, types.UntypedRune:
		return "", "", false
	}
	return "", "", false
}

func intBits(t types.Type) (bits int, signed bool, ok bool) {
	b, isb := types.Unalias(t).Underlying().(*types.Basic)
	if !isb {
		return 0, false, false
	}
	switch b.Kind() {
	case types.Int8:
		return 8, true, true
	case types.Int16:
		return 16, true, true
	case types.Int32:
		return 32, true, true
	case types.Int, types.Int64:
		return 64, true, true
	case types.Uint8:
		return 8, false, true
	case types.Uint16:
		return 16, false, true
	case types.Uint32:
		return 32, false, true
	case types.Uint, types.Uint64, types.Uintptr:
		return 64, false, true
	}
	return 0, false, false
}

func pow2(n int) string {
	switch n {
	case 8:
		return "256"
	case 16:
		return "65536"
	case 32:
		return "4294967296"
	case 64:
		return "18446744073709551616"
	case 7:
		return "128"
	case 15:
		return "32768"
	case 31:
		return "2147483648"
	case 63:
		return "9223372036854775808"
	}
	panic("pow2")
}

// wrap applies two's-complement wrap for type t to the mathematical value x.
func wrap(t types.Type, x string) string {
	bits, signed, ok := intBits(t)
	if !ok {
		return x
	}
	if !signed {
		return sx("mod", x, pow2(bits))
	}
	// ((x + 2^(n-1)) mod 2^n) - 2^(n-1)
	return sx("-", sx("mod", sx("+", x, pow2(bits-1)), pow2(bits)), pow2(bits-1))
}

// typeInv gives the assumption every value of Go type t satisfies.
func (ss *Sorts) typeInv(t types.Type, x string, depth int) string {
	t = types.Unalias(t)
	if lo, hi, ok := intBounds(t); ok {
		return and(sx("<=", lo, x), sx("<=", x, hi))
	}
	switch u := t.Underlying().(type) {
	case *types.Basic:
		if u.Info()&types.IsString != 0 {
			return sx("str_wf", x)
		}
	case *types.Slice:
		return sx("slice_wf", x)
	case *types.Struct:
		if depth > 3 {
			return "true"
		}
		name := ss.sortOf(t)
		var cs []string
		for i := 0; i < u.NumFields(); i++ {
			cs = append(cs, ss.typeInv(u.Field(i).Type(), sx(fmt.Sprintf("%s_%d", name, i), x), depth+1))
		}
		return and(cs...)
	case *types.Pointer, *types.Map, *types.Chan, *types.Signature:
		return sx("<=", "0", x)
	}
	return "true"
}

func sortedKeys[V any](m map[string]V) []string {
	ks := make([]string, 0, len(m))
	for k := range m {
		ks = append(ks, k)
	}
	sort.Strings(ks)
	return ks
}
