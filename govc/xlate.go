package main

import (
	"fmt"
	"go/constant"
	"go/types"
	"golang.org/x/tools/go/ssa"
	"os"
	"regexp"
	"sort"
	"strings"
)

// Env is the context a specification expression is translated in.
type Env struct {
	vc      *VC
	st      *State
	old     *State
	vars    map[string]Term
	pkg     *types.Package
	parent  *Env
	states  map[string]*State // named states ("$iter": start of the current loop iteration)
	existed string            // at a call site: the predicate "existed before this call" that fresh()/isold() of the callee's contract refer to
}

type xlateErr string

func (e *Env) fail(f string, a ...any) {
	panic(xlateErr(fmt.Sprintf(f, a...)))
}

func (e *Env) child() *Env {
	return &Env{vc: e.vc, st: e.st, old: e.old, vars: map[string]Term{}, pkg: e.pkg, parent: e, existed: e.existed}
}

// existedPred: the predicate fresh()/isold() are relative to ("is_old": existed when the function
// under verification was entered).
func (e *Env) existedPred() string {
	for x := e; x != nil; x = x.parent {
		if x.existed != "" {
			return x.existed
		}
	}
	return "is_old"
}

func (e *Env) lookup(name string) (Term, bool) {
	for x := e; x != nil; x = x.parent {
		if t, ok := x.vars[name]; ok {
			return t, true
		}
	}
	return Term{}, false
}

func (e *Env) lookupState(name string) (*State, bool) {
	for x := e; x != nil; x = x.parent {
		if s, ok := x.states[name]; ok {
			return s, true
		}
	}
	return nil, false
}

func (e *Env) withState(st *State) *Env {
	n := e.child()
	n.st = st
	return n
}

// translate returns the SMT term for spec expression x, or an error.
func (e *Env) translate(x Expr) (t Term, err error) {
	t, err = e.translate1(x)
	for tries := 0; err != nil && tries < 3; tries++ {
		// a clause that names a local variable the function does not have (any more): when exactly one
		// local in scope that the contract does not mention anywhere makes the clause well-typed, the
		// clause is read with that local (a renamed local is the same proof hint under another name)
		m := unknownIdentRe.FindStringSubmatch(err.Error())
		if m == nil || e.vc == nil || e.vc.spec == nil {
			return
		}
		name := m[1]
		if _, done := e.vc.renamed[name]; done {
			return
		}
		if e.vc.localNames()[name] {
			return // the function has a variable of that name: it is out of scope here, not renamed
		}
		wantType, wantOrd := e.vc.P.localType(e.vc.spec.Name, name)
		var fits []string
		for _, c := range e.renameCandidates() {
			if !e.fitsUses(name, c) || (wantType != "" && e.goTypeOf(c) != "" && e.goTypeOf(c) != wantType) {
				continue
			}
			e.vc.renamed[name] = c
			if _, err2 := e.translate1(x); err2 == nil {
				fits = append(fits, c)
			}
			delete(e.vc.renamed, name)
		}
		if len(fits) > 1 && wantOrd >= 0 && wantType != "" {
			// several variables of the right type: the one declared at the same position among the
			// function's variables of that type as the variable the contract was written for
			if y := e.vc.varAtOrdinal(wantType, wantOrd); y != "" {
				for _, c := range fits {
					if c == y {
						fits = []string{y}
					}
				}
			}
		}
		if os.Getenv("GOVC_DEBUG") != "" {
			fmt.Fprintf(os.Stderr, "rename %s in %s: candidates %v fit %v\n", name, e.vc.name, e.renameCandidates(), fits)
		}
		if len(fits) != 1 {
			return
		}
		e.vc.renamed[name] = fits[0]
		e.vc.note(fmt.Sprintf("the contract names a local variable %q that the function does not have; read as %q, the only local in scope that the contract does not mention and that fits the clause", name, fits[0]))
		t, err = e.translate1(x)
	}
	return
}

// goTypeOf: the Go type of a variable in scope, as text.
func (e *Env) goTypeOf(cand string) string {
	if t, ok := e.lookup(cand); ok && t.T != nil {
		return types.TypeString(t.T, nil)
	}
	if c, ok := e.lookup("&" + cand); ok && c.T != nil {
		return types.TypeString(derefT(c.T), nil)
	}
	return ""
}

// fitsUses: can local cand stand for the name the contract uses, judging by how the contract's clauses use
// the name (indexed, measured, taken as a slice, selected from)?
func (e *Env) fitsUses(name, cand string) bool {
	t, ok := e.lookup(cand)
	var gt types.Type
	if ok {
		gt = t.T
	} else if c, ok := e.lookup("&" + cand); ok && c.T != nil {
		gt = derefT(c.T)
	}
	if gt == nil {
		return true
	}
	u := types.Unalias(gt).Underlying()
	_, isSlice := u.(*types.Slice)
	_, isMap := u.(*types.Map)
	_, isArr := u.(*types.Array)
	isStr := false
	if b, ok := u.(*types.Basic); ok && b.Info()&types.IsString != 0 {
		isStr = true
	}
	q := regexp.QuoteMeta(name)
	for _, c := range e.vc.spec.Clauses {
		txt := c.Text + " " + c.Name
		if regexp.MustCompile(`\b(elemsof|sref)\(`+q+`\)`).MatchString(txt) && !isSlice {
			return false
		}
		if regexp.MustCompile(`(^|[^A-Za-z0-9_.])`+q+`\[`).MatchString(txt) && !(isSlice || isMap || isArr || isStr) {
			return false
		}
		if regexp.MustCompile(`\blen\(`+q+`\)`).MatchString(txt) && !(isSlice || isMap || isArr || isStr) {
			return false
		}
		for _, m := range regexp.MustCompile(`(^|[^A-Za-z0-9_.])`+q+`\.([A-Za-z_][A-Za-z0-9_]*)`).FindAllStringSubmatch(txt, -1) {
			if _, isGhost := e.vc.P.spec.GhostFields[m[2]]; isGhost {
				continue
			}
			pkg := e.vc.P.logPkg.Types
			if n, ok := derefNamed(gt); ok && n.Obj().Pkg() != nil {
				pkg = n.Obj().Pkg()
			}
			if _, ok := fieldPath(gt, pkg, m[2]); !ok {
				return false
			}
		}
	}
	return true
}

var unknownIdentRe = regexp.MustCompile(`unknown identifier "([A-Za-z_][A-Za-z0-9_]*)"`)

// localNames: the source-level variables of the function (parameters, results, captured variables, locals).
func (vc *VC) localNames() map[string]bool {
	if vc.localNameSet != nil {
		return vc.localNameSet
	}
	m := map[string]bool{}
	if vc.fn != nil {
		for _, p := range vc.fn.Params {
			m[p.Name()] = true
		}
		for _, f := range vc.fn.FreeVars {
			m[f.Name()] = true
		}
		for _, b := range vc.fn.Blocks {
			for _, in := range b.Instrs {
				switch x := in.(type) {
				case *ssa.DebugRef:
					if v, ok := x.Object().(*types.Var); ok && !v.IsField() && v.Pkg() != nil && v.Parent() != v.Pkg().Scope() {
						m[v.Name()] = true
					}
				case *ssa.Alloc:
					if x.Comment != "" && !strings.ContainsAny(x.Comment, " .$") {
						m[x.Comment] = true
					}
				}
			}
		}
	}
	vc.localNameSet = m
	return m
}

// varAtOrdinal: the name of the ord-th variable (in declaration order) of the given type among the
// variables of the function, or "" when that cannot be determined.
func (vc *VC) varAtOrdinal(typ string, ord int) string {
	if vc.fn == nil || len(vc.fn.FreeVars) > 0 {
		return ""
	}
	seen := map[types.Object]bool{}
	var objs []types.Object
	add := func(o types.Object) {
		v, ok := o.(*types.Var)
		if !ok || v.IsField() || v.Pkg() == nil || v.Parent() == v.Pkg().Scope() || seen[o] || types.TypeString(v.Type(), nil) != typ {
			return
		}
		seen[o] = true
		objs = append(objs, o)
	}
	for _, p := range vc.fn.Params {
		if p.Object() != nil {
			add(p.Object())
		}
	}
	for _, b := range vc.fn.Blocks {
		for _, in := range b.Instrs {
			if d, ok := in.(*ssa.DebugRef); ok && d.Object() != nil {
				add(d.Object())
			}
		}
	}
	sort.Slice(objs, func(i, j int) bool { return objs[i].Pos() < objs[j].Pos() })
	if ord < 0 || ord >= len(objs) {
		return ""
	}
	return objs[ord].Name()
}

// renameCandidates: the variables of the function in scope that no clause of its contract mentions.
func (e *Env) renameCandidates() []string {
	vc := e.vc
	mentioned := map[string]bool{}
	for _, c := range vc.spec.Clauses {
		for _, id := range goIdentRe.FindAllString(c.Text+" "+c.Name, -1) {
			mentioned[id] = true
		}
	}
	taken := map[string]bool{}
	for _, v := range vc.renamed {
		taken[v] = true
	}
	locals := vc.localNames()
	seen := map[string]bool{}
	var out []string
	for x := e; x != nil; x = x.parent {
		for k := range x.vars {
			n := strings.TrimPrefix(k, "&")
			if n == "" || !locals[n] || mentioned[n] || taken[n] || seen[n] {
				continue
			}
			seen[n] = true
			out = append(out, n)
		}
	}
	sort.Strings(out)
	return out
}

func (e *Env) translate1(x Expr) (t Term, err error) {
	defer func() {
		if r := recover(); r != nil {
			if xe, ok := r.(xlateErr); ok {
				err = fmt.Errorf("%s (in %s)", string(xe), exprString(x))
				return
			}
			panic(r)
		}
	}()
	return e.tr(x), nil
}

func (e *Env) boolean(x Expr) (string, error) {
	t, err := e.translate(x)
	if err != nil {
		return "", err
	}
	if t.Sort != "Bool" {
		return "", fmt.Errorf("expected a boolean, got %s in %s", t.Sort, exprString(x))
	}
	return t.S, nil
}

// resolveType turns spec type text into (Go type or nil, sort).
func (e *Env) resolveType(s string) (types.Type, string) {
	P := e.vc.P
	s = strings.TrimSpace(s)
	switch s {
	case "int":
		return types.Typ[types.Int], "Int"
	case "bool":
		return types.Typ[types.Bool], "Bool"
	case "string":
		return types.Typ[types.String], "Str"
	case "byte":
		return types.Typ[types.Uint8], "Int"
	case "rune", "int32":
		return types.Typ[types.Int32], "Int"
	case "int64":
		return types.Typ[types.Int64], "Int"
	case "uint64":
		return types.Typ[types.Uint64], "Int"
	case "any":
		return types.NewInterfaceType(nil, nil), "Iface"
	case "mathint", "ref":
		return nil, "Int"
	}
	if strings.HasPrefix(s, "smt:") {
		return nil, strings.TrimPrefix(s, "smt:")
	}
	if o := types.Universe.Lookup(s); o != nil {
		if tn, ok := o.(*types.TypeName); ok {
			return tn.Type(), e.vc.ss().sortOf(tn.Type())
		}
	}
	if P.prelude.sorts[s] {
		return nil, s
	}
	if strings.HasPrefix(s, "*") {
		t, _ := e.resolveType(s[1:])
		if t == nil {
			return nil, "Int"
		}
		return types.NewPointer(t), "Int"
	}
	if strings.HasPrefix(s, "[]") {
		t, _ := e.resolveType(s[2:])
		if t == nil {
			e.fail("cannot resolve element type in %s", s)
		}
		return types.NewSlice(t), "Slice"
	}
	if strings.HasPrefix(s, "gomap[") {
		// a Go map type (for dyn/as): gomap[K]V
		d := 0
		for i := 5; i < len(s); i++ {
			if s[i] == '[' {
				d++
			} else if s[i] == ']' {
				d--
				if d == 0 {
					kt, _ := e.resolveType(s[6:i])
					vt, _ := e.resolveType(s[i+1:])
					if kt == nil || vt == nil {
						e.fail("cannot resolve %s", s)
					}
					return types.NewMap(kt, vt), "Int"
				}
			}
		}
	}
	if strings.HasPrefix(s, "map[") {
		// ghost maps: map[K]V  -> (Array K V)
		d := 0
		for i := 3; i < len(s); i++ {
			if s[i] == '[' {
				d++
			} else if s[i] == ']' {
				d--
				if d == 0 {
					_, ks := e.resolveType(s[4:i])
					_, vs := e.resolveType(s[i+1:])
					return nil, "(Array " + ks + " " + vs + ")"
				}
			}
		}
	}
	pkg := e.pkg
	name := s
	if i := strings.Index(s, "."); i >= 0 {
		pn := s[:i]
		name = s[i+1:]
		pkg = nil
		for _, p := range P.allTypesPkgs {
			if p.Name() == pn {
				if p.Scope().Lookup(name) != nil {
					pkg = p
					break
				}
			}
		}
		if pkg == nil {
			e.fail("unknown package in type %s", s)
		}
	}
	if pkg != nil {
		if o := pkg.Scope().Lookup(name); o != nil {
			if tn, ok := o.(*types.TypeName); ok {
				return tn.Type(), e.vc.ss().sortOf(tn.Type())
			}
		}
	}
	if o := P.logPkg.Types.Scope().Lookup(name); o != nil {
		if tn, ok := o.(*types.TypeName); ok {
			return tn.Type(), e.vc.ss().sortOf(tn.Type())
		}
	}
	e.fail("unknown type %q", s)
	return nil, ""
}

func isIntSort(t Term) bool { return t.Sort == "Int" }

func (e *Env) tr(x Expr) Term {
	vc := e.vc
	switch x := x.(type) {
	case *EInt:
		return Term{S: bigLit(x.Val.String()), Sort: "Int"}
	case *EStr:
		return Term{S: strLit(x.Val), Sort: "Str", T: types.Typ[types.String]}
	case *EBool:
		if x.Val {
			return Term{S: "true", Sort: "Bool"}
		}
		return Term{S: "false", Sort: "Bool"}
	case *EIdent:
		return e.ident(x.Name)
	case *ESel:
		// package-qualified constant or variable
		if id, ok := x.X.(*EIdent); ok {
			if _, bound := e.lookup(id.Name); !bound {
				if p := vc.P.findPkgByName(id.Name, e.pkg); p != nil {
					if o := p.Scope().Lookup(x.Name); o != nil {
						return e.object(o)
					}
				}
			}
		}
		base := e.tr(x.X)
		return e.selectField(base, x.Name)
	case *EIndex:
		base := e.tr(x.X)
		idx := e.tr(x.I)
		return e.index(base, idx)
	case *ESlice:
		base := e.tr(x.X)
		lo := "0"
		if x.Lo != nil {
			lo = e.tr(x.Lo).S
		}
		if base.Sort == "Str" {
			hi := sx("slen", base.S)
			if x.Hi != nil {
				hi = e.tr(x.Hi).S
			}
			return Term{S: sx("str_sub", base.S, lo, hi), Sort: "Str", T: base.T}
		}
		if base.Sort == "Slice" {
			hi := sx("sl_len", base.S)
			if x.Hi != nil {
				hi = e.tr(x.Hi).S
			}
			return Term{S: sx("mk-slice", sx("sl_ref", base.S), sx("+", sx("sl_off", base.S), lo), sx("-", hi, lo), sx("-", sx("sl_cap", base.S), lo)), Sort: "Slice", T: base.T}
		}
		e.fail("cannot slice a %s", base.Sort)
	case *EUn:
		a := e.tr(x.X)
		switch x.Op {
		case "!":
			return Term{S: not(a.S), Sort: "Bool"}
		case "-":
			return Term{S: sx("-", a.S), Sort: "Int"}
		}
	case *EBin:
		return e.binary(x)
	case *ECond:
		c := e.tr(x.C)
		a := e.tr(x.A)
		b := e.tr(x.B)
		if a.Sort != b.Sort {
			e.fail("branches of ?: have sorts %s and %s", a.Sort, b.Sort)
		}
		return Term{S: sx("ite", c.S, a.S, b.S), Sort: a.Sort, T: a.T}
	case *EQuant:
		n := e.child()
		var bs []string
		var guards []string
		for _, v := range x.Vars {
			t, sort := e.resolveType(v.Type)
			name := "q_" + v.Name
			bs = append(bs, fmt.Sprintf("(%s %s)", name, sort))
			n.vars[v.Name] = Term{S: name, Sort: sort, T: t}
			if t != nil && v.Type != "int" && sort == "Int" {
				// (no nested quantifiers: well-formedness of bound strings is not assumed)
				if inv := vc.ss().typeInv(t, name, 0); inv != "true" {
					guards = append(guards, inv)
				}
			}
		}
		body := n.tr(x.Body)
		if body.Sort != "Bool" {
			e.fail("quantifier body is not boolean")
		}
		q := "exists"
		b := body.S
		if x.Forall {
			q = "forall"
			b = implies(and(guards...), b)
		} else {
			b = and(append(guards, b)...)
		}
		trigs := x.Triggers
		if len(trigs) == 0 {
			// default trigger: the element reads a[k] whose index is exactly a bound variable (one per
			// variable).  Index terms alone (sl_idx s k) make poor triggers: skolem indices produced by
			// other facts would match them and start matching loops.
			if g := autoTrigger(x); g != nil {
				trigs = [][]Expr{g}
			}
		}
		if len(trigs) > 0 {
			x = &EQuant{Forall: x.Forall, Vars: x.Vars, Body: x.Body, Triggers: trigs}
			var pats []string
			for _, g := range x.Triggers {
				var ts []string
				usable := true
				for _, te := range g {
					t := n.value(n.tr(te)).S
					// solvers reject or ignore patterns containing if-then-else
					if strings.Contains(t, "(ite ") {
						usable = false
					}
					ts = append(ts, t)
				}
				if usable {
					pats = append(pats, ":pattern ("+strings.Join(ts, " ")+")")
				}
			}
			if len(pats) > 0 {
				b = fmt.Sprintf("(! %s %s)", b, strings.Join(pats, " "))
			}
		}
		return Term{S: fmt.Sprintf("(%s (%s) %s)", q, strings.Join(bs, " "), b), Sort: "Bool"}
	case *ECall:
		return e.call(x)
	case *ETypeArg:
		e.fail("type %s used as a value", x.Type)
	}
	e.fail("cannot translate %T", x)
	return Term{}
}

func (e *Env) binary(x *EBin) Term {
	a := e.value(e.tr(x.X))
	b := e.value(e.tr(x.Y))
	switch x.Op {
	case "==>":
		return Term{S: implies(a.S, b.S), Sort: "Bool"}
	case "<==>":
		return Term{S: sx("=", a.S, b.S), Sort: "Bool"}
	case "&&":
		return Term{S: and(a.S, b.S), Sort: "Bool"}
	case "||":
		return Term{S: or(a.S, b.S), Sort: "Bool"}
	case "==", "!=":
		a, b = e.coerceNil(a, b)
		if a.Sort != b.Sort {
			e.fail("comparing %s with %s", a.Sort, b.Sort)
		}
		s := sx("=", a.S, b.S)
		if x.Op == "!=" {
			s = not(s)
		}
		return Term{S: s, Sort: "Bool"}
	case "<", "<=", ">", ">=":
		if a.Sort != "Int" || b.Sort != "Int" {
			e.fail("ordering on %s", a.Sort)
		}
		return Term{S: sx(x.Op, a.S, b.S), Sort: "Bool"}
	case "+":
		if a.Sort == "Str" && b.Sort == "Str" {
			return Term{S: sx("str_cat", a.S, b.S), Sort: "Str", T: a.T}
		}
		return Term{S: sx("+", a.S, b.S), Sort: "Int"}
	case "-", "*":
		return Term{S: sx(x.Op, a.S, b.S), Sort: "Int"}
	case "/":
		return Term{S: sx("div", a.S, b.S), Sort: "Int"}
	case "%":
		return Term{S: sx("mod", a.S, b.S), Sort: "Int"}
	}
	e.fail("unsupported operator %s", x.Op)
	return Term{}
}

// coerceNil lets the identifier nil compare with slices and interfaces.
func (e *Env) coerceNil(a, b Term) (Term, Term) {
	fix := func(n, o Term) Term {
		if n.S == "0" && n.T == nil && n.Loc == nil {
			switch o.Sort {
			case "Slice":
				return Term{S: "slice_nil", Sort: "Slice"}
			case "Iface":
				return Term{S: "iface_nil", Sort: "Iface"}
			}
		}
		return n
	}
	return fix(a, b), fix(b, a)
}

func (e *Env) ident(name string) Term {
	vc := e.vc
	if a, ok := vc.renamed[name]; ok {
		if _, bound := e.lookup(name); !bound {
			name = a
		}
	}
	if t, ok := e.lookup(name); ok {
		return t
	}
	if name == "nil" {
		return Term{S: "0", Sort: "Int"}
	}
	if name == "$frame" {
		vc.declare("frame_self", "Int")
		vc.P.prelude.useFile(vc, "frames")
		return Term{S: "frame_self", Sort: "Int"}
	}
	if t, ok := e.freeVar(name); ok {
		return t
	}
	if t, ok := vc.lets[name]; ok {
		return t
	}
	// ghost variable
	if ty, ok := vc.P.spec.GhostVars[name]; ok {
		gt, sort := e.resolveType(ty)
		return Term{S: vc.get(e.st, "G_"+name, sort), Sort: sort, T: gt}
	}
	// package-level object
	if e.pkg != nil {
		if o := e.pkg.Scope().Lookup(name); o != nil {
			return e.object(o)
		}
	}
	if o := vc.P.logPkg.Types.Scope().Lookup(name); o != nil {
		return e.object(o)
	}
	if o := types.Universe.Lookup(name); o != nil {
		if c, ok := o.(*types.Const); ok {
			return e.constTerm(c.Val(), c.Type())
		}
	}
	// zero-ary prelude function / constant
	if sig, ok := vc.P.prelude.funs[name]; ok && len(sig.args) == 0 {
		vc.P.prelude.use(vc, name)
		return Term{S: name, Sort: sig.res}
	}
	e.fail("unknown identifier %q", name)
	return Term{}
}

func (e *Env) constTerm(v constant.Value, t types.Type) Term {
	switch v.Kind() {
	case constant.Bool:
		if constant.BoolVal(v) {
			return Term{S: "true", Sort: "Bool", T: t}
		}
		return Term{S: "false", Sort: "Bool", T: t}
	case constant.String:
		return Term{S: strLit(constant.StringVal(v)), Sort: "Str", T: t}
	case constant.Int:
		return Term{S: bigLit(v.ExactString()), Sort: "Int", T: t}
	}
	e.fail("unsupported constant kind")
	return Term{}
}

func (e *Env) object(o types.Object) Term {
	vc := e.vc
	switch o := o.(type) {
	case *types.Const:
		return e.constTerm(o.Val(), o.Type())
	case *types.Var:
		// package-level variable
		return vc.readGlobal(e.st, o)
	case *types.Func:
		return Term{S: vc.funcConst(o.FullName()), Sort: "Int", T: o.Type()}
	}
	e.fail("cannot use %s in a specification", o.Name())
	return Term{}
}

// globalName gives the state variable of a package-level variable.
func (vc *VC) globalName(o *types.Var) string {
	n := "g_" + o.Pkg().Name() + "_" + o.Name()
	if o.Pkg() == vc.P.logPkg.Types {
		n = "g_" + o.Name()
	}
	vc.globalPkg[n] = o.Pkg().Path()
	return n
}

func (vc *VC) globalRef(o *types.Var) string {
	n := "gref_" + strings.TrimPrefix(vc.globalName(o), "g_")
	if !vc.declared[n] {
		vc.declare(n, "Int")
		vc.preamble = append(vc.preamble, fmt.Sprintf("(assert (and (> %s 0) (is_old %s)))", n, n))
	}
	return n
}

func (vc *VC) readGlobal(st *State, o *types.Var) Term {
	if subObject(o.Type()) {
		// struct-typed globals are objects: yield the value
		return vc.loadStruct(st, vc.globalRef(o), o.Type())
	}
	sort := vc.ss().sortOf(o.Type())
	return Term{S: vc.get(st, vc.globalName(o), sort), Sort: sort, T: o.Type()}
}

func (vc *VC) funcConst(full string) string {
	n := "fn_" + mangle(full)
	if !vc.declared[n] {
		vc.declare(n, "Int")
		vc.preamble = append(vc.preamble, fmt.Sprintf("(assert (> %s 0))", n))
	}
	return n
}

// fieldPath resolves name on type t, following embedded fields.
func fieldPath(t types.Type, pkg *types.Package, name string) (path []int, ok bool) {
	obj, index, _ := types.LookupFieldOrMethod(t, true, pkg, name)
	if v, isVar := obj.(*types.Var); isVar && v.IsField() {
		return index, true
	}
	return nil, false
}

func (e *Env) selectField(base Term, name string) Term {
	vc := e.vc
	// ghost field
	if gf, ok := vc.P.spec.GhostFields[name]; ok && (base.Sort == "Int" || base.Sort == "Iface") {
		isReal := false
		if base.T != nil {
			if _, ok := fieldPath(base.T, vc.P.logPkg.Types, name); ok {
				isReal = true
			}
		}
		if !isReal {
			_, sort := e.resolveType(gf.Sort)
			return Term{S: sx("select", vc.get(e.st, "G_"+name, "(Array "+base.Sort+" "+sort+")"), base.S), Sort: sort}
		}
	}
	if base.T == nil {
		e.fail("selector .%s on a value without Go type", name)
	}
	pkg := vc.P.logPkg.Types
	if n, ok := derefNamed(base.T); ok && n.Obj().Pkg() != nil {
		pkg = n.Obj().Pkg()
	}
	path, ok := fieldPath(base.T, pkg, name)
	if !ok {
		e.fail("type %s has no field %s", base.T, name)
	}
	cur := base
	for _, fi := range path {
		cur = e.fieldStep(cur, fi)
	}
	return cur
}

func derefNamed(t types.Type) (*types.Named, bool) {
	t = types.Unalias(t)
	if p, ok := t.Underlying().(*types.Pointer); ok {
		t = types.Unalias(p.Elem())
	}
	n, ok := t.(*types.Named)
	return n, ok
}

// fieldStep selects field fi of cur, which is a struct value, a pointer to a
// struct, or a "struct object" (internal: pointer whose struct lives in the heap).
func (e *Env) fieldStep(cur Term, fi int) Term {
	vc := e.vc
	t := types.Unalias(cur.T)
	if p, ok := t.Underlying().(*types.Pointer); ok {
		st := p.Elem()
		s, ok := isStruct(st)
		if !ok {
			e.fail("field of pointer to non-struct")
		}
		ft := s.Field(fi).Type()
		if valueStruct(st) && (cur.Loc == nil || cur.Loc.Kind != -1) {
			name, sortName := vc.cellVar(st)
			whole := sx("select", vc.get(e.st, name, sortName), cur.S)
			return Term{S: sx(fmt.Sprintf("%s_%d", vc.ss().sortOf(st), fi), whole), Sort: vc.ss().sortOf(ft), T: ft}
		}
		if subObject(ft) {
			// stay in "pointer" form for nested struct objects
			return Term{S: sx(vc.subFun(st, fi), cur.S), Sort: "Int", T: types.NewPointer(ft), Loc: &Loc{Kind: -1}}
		}
		return vc.readField(e.st, cur.S, st, fi)
	}
	if s, ok := isStruct(t); ok {
		sortName := vc.ss().sortOf(t)
		ft := s.Field(fi).Type()
		return Term{S: sx(fmt.Sprintf("%s_%d", sortName, fi), cur.S), Sort: vc.ss().sortOf(ft), T: ft}
	}
	e.fail("field selection on %s", cur.T)
	return Term{}
}

// value turns an internal struct-object pointer produced by fieldStep into the
// struct value when a value is needed.
func (e *Env) value(t Term) Term {
	if t.Loc != nil && t.Loc.Kind == -1 {
		p := types.Unalias(t.T).Underlying().(*types.Pointer)
		return e.vc.loadStruct(e.st, t.S, p.Elem())
	}
	return t
}

func (e *Env) index(base, idx Term) Term {
	vc := e.vc
	base = e.value(base)
	switch {
	case base.Sort == "Str":
		return Term{S: sx("select", sx("sarr", base.S), idx.S), Sort: "Int", T: types.Typ[types.Uint8]}
	case base.Sort == "Slice":
		if base.T == nil {
			e.fail("indexing a slice without element type")
		}
		sl := types.Unalias(base.T).Underlying().(*types.Slice)
		return vc.elemRead(e.st, base.S, idx.S, sl.Elem())
	case strings.HasPrefix(base.Sort, "(Array "):
		// ghost map
		parts := splitSortArgs(base.Sort)
		if parts[0] != "Int" {
			idx = e.value(idx) // (a reference key keeps its pointer form)
		}
		return Term{S: sx("select", base.S, idx.S), Sort: parts[1]}
	case base.T != nil:
		if m, ok := types.Unalias(base.T).Underlying().(*types.Map); ok {
			_, _, vn, vs := vc.mapVars(m)
			return Term{S: sx("select", sx("select", vc.get(e.st, vn, vs), base.S), idx.S), Sort: vc.ss().sortOf(m.Elem()), T: m.Elem()}
		}
	}
	e.fail("cannot index %s", base.Sort)
	return Term{}
}

// splitSortArgs splits "(Array K V)" into [K V].
func splitSortArgs(s string) []string {
	s = strings.TrimSuffix(strings.TrimPrefix(s, "(Array "), ")")
	d := 0
	for i := 0; i < len(s); i++ {
		switch s[i] {
		case '(':
			d++
		case ')':
			d--
		case ' ':
			if d == 0 {
				return []string{s[:i], s[i+1:]}
			}
		}
	}
	return []string{s, ""}
}

func (e *Env) call(x *ECall) Term {
	vc := e.vc
	if x.Recv != nil {
		// Iface.Method(recv, args...) for a pure_const interface method
		recvName := ""
		if id, ok := x.Recv.(*EIdent); ok {
			recvName = id.Name
		} else if sel, ok := x.Recv.(*ESel); ok {
			if id, ok := sel.X.(*EIdent); ok {
				recvName = id.Name + "." + sel.Name
			}
		}
		if recvName != "" {
			sp, ok := vc.P.spec.Funcs[recvName+"."+x.Fun]
			if !ok {
				// a method with a value receiver of another package: (pkg.Type).Method
				sp, ok = vc.P.spec.Funcs["("+recvName+")."+x.Fun]
			}
			if !ok {
				// an interface named without its package: accepted when exactly one contract matches
				var hit *FuncSpec
				n := 0
				for k, c := range vc.P.spec.Funcs {
					if strings.HasSuffix(k, "."+recvName+"."+x.Fun) && c.PureConst {
						hit = c
						n++
					}
				}
				if n == 1 {
					sp, ok = hit, true
				}
			}
			if ok && sp.PureConst {
				var as []Term
				for _, a := range x.Args {
					as = append(as, e.value(e.tr(a)))
				}
				rt := vc.P.pureConstResult(sp)
				if rt == nil {
					e.fail("cannot determine the result type of %s", sp.Name)
				}
				return vc.pureConstApp(sp, as, rt)
			}
		}
		e.fail("method calls are not supported in specifications: %s", x.Fun)
	}
	switch x.Fun {
	case "old":
		if len(x.Args) != 1 {
			e.fail("old takes one argument")
		}
		if e.old == nil {
			e.fail("old() not available here")
		}
		n := e.withState(e.old)
		return n.value(n.tr(x.Args[0]))
	case "len":
		a := e.value(e.tr(x.Args[0]))
		switch a.Sort {
		case "Str":
			return Term{S: sx("slen", a.S), Sort: "Int"}
		case "Slice":
			return Term{S: sx("sl_len", a.S), Sort: "Int"}
		case "Bytes":
			return Term{S: sx("blen", a.S), Sort: "Int"}
		}
		e.fail("len of %s", a.Sort)
	case "cap":
		a := e.value(e.tr(x.Args[0]))
		return Term{S: sx("sl_cap", a.S), Sort: "Int"}
	case "has":
		m := e.tr(x.Args[0])
		k := e.tr(x.Args[1])
		if m.T == nil {
			e.fail("has() needs a map")
		}
		mt, ok := types.Unalias(m.T).Underlying().(*types.Map)
		if !ok {
			e.fail("has() needs a map")
		}
		hn, hs, _, _ := vc.mapVars(mt)
		return Term{S: sx("select", sx("select", vc.get(e.st, hn, hs), m.S), k.S), Sort: "Bool"}
	case "keys", "vals":
		// the key set / value function of a Go map, as arrays
		m := e.tr(x.Args[0])
		mt, ok := types.Unalias(m.T).Underlying().(*types.Map)
		if !ok {
			e.fail("%s() needs a map", x.Fun)
		}
		hn, hs, vn, vs := vc.mapVars(mt)
		if x.Fun == "keys" {
			return Term{S: sx("select", vc.get(e.st, hn, hs), m.S), Sort: splitSortArgs(hs)[1]}
		}
		return Term{S: sx("select", vc.get(e.st, vn, vs), m.S), Sort: splitSortArgs(vs)[1]}
	case "dyn":
		// dyn(x, *T): dynamic type test
		a := e.tr(x.Args[0])
		ta, ok := x.Args[1].(*ETypeArg)
		var tt types.Type
		if ok {
			tt, _ = e.resolveType(ta.Type)
		} else if id, ok := x.Args[1].(*EIdent); ok {
			tt, _ = e.resolveType(id.Name)
		}
		if tt == nil {
			e.fail("dyn needs a type")
		}
		return Term{S: sx("=", sx("if_tag", a.S), fmt.Sprint(vc.ss().typeTag(tt))), Sort: "Bool"}
	case "implements":
		// implements(x, Iface): the dynamic type of x implements the named interface
		a := e.tr(x.Args[0])
		id, ok := x.Args[1].(*EIdent)
		if !ok {
			e.fail("implements needs an interface name")
		}
		it, _ := e.resolveType(id.Name)
		if it == nil {
			e.fail("unknown interface %s", id.Name)
		}
		f := "implements_" + mangle(shortTypeName(it))
		vc.declareFun(f, []string{"Int"}, "Bool")
		return Term{S: and(not(sx("=", a.S, "iface_nil")), sx(f, sx("if_tag", a.S))), Sort: "Bool"}
	case "as":
		a := e.tr(x.Args[0])
		var tt types.Type
		if ta, ok := x.Args[1].(*ETypeArg); ok {
			tt, _ = e.resolveType(ta.Type)
		} else if id, ok := x.Args[1].(*EIdent); ok {
			tt, _ = e.resolveType(id.Name)
		}
		if tt == nil {
			e.fail("as needs a type")
		}
		return vc.unboxIface(a.S, tt)
	case "iface":
		// iface(p): the interface value holding pointer p
		a := e.tr(x.Args[0])
		if a.T == nil {
			e.fail("iface() needs a typed value")
		}
		return vc.makeIface(a)
	case "fresh":
		a := e.tr(x.Args[0])
		return Term{S: and(sx(">", a.S, "0"), not(sx(e.existedPred(), a.S))), Sort: "Bool"}
	case "$existed":
		// $existed(x): x existed when the range statement of the enclosing rangefunc clause started
		pt, ok := e.lookup("$existed")
		if !ok {
			e.fail("$existed() is only available in rangefunc clauses")
		}
		a := e.value(e.tr(x.Args[0]))
		return Term{S: sx(pt.S, a.S), Sort: "Bool"}
	case "freevar":
		// freevar(i): the current value of the i-th captured variable of the function under contract
		// (for captured variables without a usable name, e.g. the enclosing function's unnamed result)
		lit, ok := x.Args[0].(*EInt)
		if !ok {
			e.fail("freevar() needs an integer literal")
		}
		t, ok := e.lookup("&#" + lit.Val.String())
		if !ok {
			e.fail("freevar(%s): the function has no such captured variable", lit.Val.String())
		}
		return vc.load(e.st, t)
	case "isold":
		a := e.tr(x.Args[0])
		return Term{S: sx(e.existedPred(), a.S), Sort: "Bool"}
	case "calls":
		a := e.tr(x.Args[0])
		if a.T == nil {
			e.fail("calls() needs a typed function value")
		}
		return Term{S: sx("select", vc.get(e.st, callsVar(a.T), "(Array Int Int)"), a.S), Sort: "Int"}
	case "addr":
		// addr(g): the object reference of a struct-typed package variable
		id, ok := x.Args[0].(*EIdent)
		if !ok {
			e.fail("addr() needs a package variable")
		}
		o, _ := vc.P.logPkg.Types.Scope().Lookup(id.Name).(*types.Var)
		if o == nil {
			e.fail("addr(): unknown variable %s", id.Name)
		}
		return Term{S: vc.globalRef(o), Sort: "Int", T: types.NewPointer(o.Type())}
	case "typetag":
		var tt types.Type
		if ta, ok := x.Args[0].(*ETypeArg); ok {
			tt, _ = e.resolveType(ta.Type)
		} else if id, ok := x.Args[0].(*EIdent); ok {
			tt, _ = e.resolveType(id.Name)
		}
		if tt == nil {
			e.fail("typetag needs a type")
		}
		return Term{S: fmt.Sprint(vc.ss().typeTag(tt)), Sort: "Int"}
	case "content":
		// content(b): the bytes of a []byte as a string value
		a := e.value(e.tr(x.Args[0]))
		if a.Sort != "Slice" {
			e.fail("content() needs a slice")
		}
		name, sortName := vc.elemVar(types.Typ[types.Uint8])
		vc.P.prelude.use(vc, "str_of_slice")
		return Term{S: sx("str_of_slice", sx("select", vc.get(e.st, name, sortName), sx("sl_ref", a.S)), sx("sl_off", a.S), sx("sl_len", a.S)), Sort: "Str", T: types.Typ[types.String]}
	case "sref":
		a := e.value(e.tr(x.Args[0]))
		return Term{S: sx("sl_ref", a.S), Sort: "Int"}
	case "slot":
		// slot(s, i): the position of element i in the backing array of slice s (useful as a trigger that
		// does not depend on which version of the heap the element is read from)
		a := e.value(e.tr(x.Args[0]))
		i := e.tr(x.Args[1])
		if a.Sort != "Slice" {
			e.fail("slot() needs a slice")
		}
		return Term{S: sx("sl_idx", a.S, i.S), Sort: "Int"}
	case "soff":
		a := e.value(e.tr(x.Args[0]))
		return Term{S: sx("sl_off", a.S), Sort: "Int"}
	case "backing":
		// backing(b): the whole backing array of slice b as a value (index = offset + position)
		a := e.value(e.tr(x.Args[0]))
		st, ok := types.Unalias(a.T).Underlying().(*types.Slice)
		if a.Sort != "Slice" || !ok {
			e.fail("backing() needs a slice")
		}
		name, sortName := vc.elemVar(st.Elem())
		return Term{S: sx("select", vc.get(e.st, name, sortName), sx("sl_ref", a.S)), Sort: "(Array Int " + vc.ss().sortOf(st.Elem()) + ")"}
	case "fn":
		// fn("name"): the function constant of a named function or function literal
		name, ok := x.Args[0].(*EStr)
		if !ok {
			e.fail("fn() needs a function name string")
		}
		ft := Term{S: vc.funcConst(name.Val), Sort: "Int"}
		if f := vc.P.funcs[name.Val]; f != nil {
			ft.T = f.Type()
		}
		return ft
	case "deref":
		// deref(p): the value a pointer to a non-struct value points to
		a := e.tr(x.Args[0])
		if a.T == nil {
			e.fail("deref() needs a typed pointer")
		}
		pt, ok := types.Unalias(a.T).Underlying().(*types.Pointer)
		if !ok {
			e.fail("deref() needs a pointer")
		}
		name, sortName := vc.cellVar(pt.Elem())
		return Term{S: sx("select", vc.get(e.st, name, sortName), a.S), Sort: vc.ss().sortOf(pt.Elem()), T: pt.Elem()}
	case "mkiface":
		a := e.tr(x.Args[0])
		b := e.tr(x.Args[1])
		return Term{S: sx("mk-iface", a.S, b.S), Sort: "Iface", T: types.NewInterfaceType(nil, nil)}
	case "iter":
		// iter(e): the value of e at the start of the current loop iteration
		st, ok := e.lookupState("$iter")
		if !ok {
			e.fail("iter() is only available in loop iteration clauses")
		}
		n := e.withState(st)
		return n.value(n.tr(x.Args[0]))
	case "isclosure":
		// isclosure(f, "Outer$1"): f is a closure of the named function literal
		a := e.tr(x.Args[0])
		name, ok := x.Args[1].(*EStr)
		if !ok {
			e.fail("isclosure needs a function name string")
		}
		vc.declareFun("closure_fn", []string{"Int"}, "Int")
		return Term{S: sx("=", sx("closure_fn", a.S), vc.funcConst(name.Val)), Sort: "Bool"}
	case "upd":
		a := e.value(e.tr(x.Args[0]))
		k := e.value(e.tr(x.Args[1]))
		v := e.value(e.tr(x.Args[2]))
		return Term{S: sx("store", a.S, k.S, v.S), Sort: a.Sort, T: a.T}
	case "ifval":
		a := e.value(e.tr(x.Args[0]))
		if a.Sort == "Iface" {
			return Term{S: sx("if_val", a.S), Sort: "Int"}
		}
		return Term{S: a.S, Sort: "Int"}
	case "iftag":
		a := e.value(e.tr(x.Args[0]))
		return Term{S: sx("if_tag", a.S), Sort: "Int"}
	case "up":
		a := e.tr(x.Args[0])
		b := e.tr(x.Args[1])
		vc.P.prelude.useFile(vc, "frames")
		return Term{S: sx("up", a.S, b.S), Sort: "Int"}
	case "ret":
		// ret(f, n): the n-th result of function value f
		a := e.tr(x.Args[0])
		n := e.tr(x.Args[1])
		sig, ok := types.Unalias(a.T).Underlying().(*types.Signature)
		if !ok || sig.Results().Len() != 1 {
			e.fail("ret() needs a function value with one result")
		}
		rt := sig.Results().At(0).Type()
		return Term{S: sx(vc.retFun(rt), a.S, n.S), Sort: vc.ss().sortOf(rt), T: rt}
	case "arg0":
		a := e.tr(x.Args[0])
		sig, ok := types.Unalias(a.T).Underlying().(*types.Signature)
		if !ok || sig.Params().Len() < 1 {
			e.fail("arg0() needs a function value with a parameter")
		}
		pt := sig.Params().At(0).Type()
		sort := vc.ss().sortOf(pt)
		return Term{S: sx("select", vc.get(e.st, arg0Var(a.T), "(Array Int "+sort+")"), a.S), Sort: sort, T: pt}
	case "val":
		return e.value(e.tr(x.Args[0]))
	case "local":
		// local(name, default): the local variable of that name if the function has one in scope, else the
		// default -- for auxiliary flags a loop invariant has to mention where they exist (`exit`, `found`)
		// and that an equivalent formulation of the loop does without
		if len(x.Args) != 2 {
			e.fail("local(name, default) takes two arguments")
		}
		if id, ok := x.Args[0].(*EIdent); ok {
			if _, bound := e.vars[id.Name]; bound {
				return e.tr(x.Args[0])
			}
			if _, bound := e.vars["&"+id.Name]; bound {
				return e.tr(x.Args[0])
			}
			// the function may have the variable under another name (renamed): same resolution as for
			// any other name the contract uses
			if !e.vc.localNames()[id.Name] {
				if t, err := e.translate(x.Args[0]); err == nil {
					return t
				}
			}
			return e.tr(x.Args[1])
		}
		e.fail("local(name, default): the first argument is a variable name")
	case "max", "min":
		a := e.tr(x.Args[0])
		b := e.tr(x.Args[1])
		op := ">="
		if x.Fun == "min" {
			op = "<="
		}
		return Term{S: sx("ite", sx(op, a.S, b.S), a.S, b.S), Sort: "Int"}
	case "toInt":
		a := e.tr(x.Args[0])
		return Term{S: a.S, Sort: a.Sort}
	}
	// user spec function (macro expansion)
	if sf, ok := vc.P.spec.SpecFuns[x.Fun]; ok {
		if len(sf.Params) != len(x.Args) {
			e.fail("spec fun %s takes %d arguments", sf.Name, len(sf.Params))
		}
		if sf.Rec {
			return e.recCall(sf, x)
		}
		if sf.Abstract {
			var sorts, as []string
			for i, p := range sf.Params {
				a := e.value(e.tr(x.Args[i]))
				_, psort := e.resolveType(p.Type)
				a, _ = e.coerceNil(a, Term{Sort: psort})
				if a.Sort != psort {
					e.fail("argument %d of %s has sort %s, want %s", i+1, sf.Name, a.Sort, psort)
				}
				sorts = append(sorts, psort)
				as = append(as, a.S)
			}
			rt, rs := e.resolveType(sf.Result)
			fn := "af_" + mangle(sf.Name)
			vc.declareFun(fn, sorts, rs)
			if vc.symsUsed == nil {
				vc.symsUsed = map[string]bool{}
			}
			vc.symsUsed[sf.Name] = true
			return Term{S: sx(fn, as...), Sort: rs, T: rt}
		}
		n := &Env{vc: vc, st: e.st, old: e.old, vars: map[string]Term{}, pkg: vc.P.logPkg.Types}
		for i, p := range sf.Params {
			a := e.tr(x.Args[i])
			pt, psort := e.resolveType(p.Type)
			if pt != nil {
				if _, isS := isStruct(pt); isS {
					a = e.value(a)
				}
			}
			a, _ = e.coerceNil(a, Term{Sort: psort})
			if a.Sort != psort {
				e.fail("argument %d of %s has sort %s, want %s", i+1, sf.Name, a.Sort, psort)
			}
			if a.T == nil {
				a.T = pt
			}
			n.vars[p.Name] = a
		}
		return n.tr(sf.Body)
	}
	// a function of the repository whose contract says pure_const: a function of its arguments
	if sp, ok := vc.P.spec.Funcs[x.Fun]; ok && sp.PureConst && !sp.IsIface {
		var as []Term
		for _, a := range x.Args {
			as = append(as, e.value(e.tr(a)))
		}
		rt := vc.P.pureConstResult(sp)
		if rt == nil {
			e.fail("cannot determine the result type of %s", sp.Name)
		}
		return vc.pureConstApp(sp, as, rt)
	}
	// prelude SMT function
	if sig, ok := vc.P.prelude.funs[x.Fun]; ok {
		if len(sig.args) != len(x.Args) {
			e.fail("%s takes %d arguments, got %d", x.Fun, len(sig.args), len(x.Args))
		}
		var as []string
		for i, a := range x.Args {
			t := e.tr(a)
			if sig.args[i] != "Int" {
				t = e.value(t)
			}
			t, _ = e.coerceNil(t, Term{Sort: sig.args[i]})
			if t.Sort != sig.args[i] {
				e.fail("argument %d of %s has sort %s, want %s", i+1, x.Fun, t.Sort, sig.args[i])
			}
			as = append(as, t.S)
		}
		vc.P.prelude.use(vc, x.Fun)
		if len(as) == 0 {
			return Term{S: x.Fun, Sort: sig.res}
		}
		var rt types.Type
		if sig.res == "Str" {
			rt = types.Typ[types.String]
		}
		return Term{S: sx(x.Fun, as...), Sort: sig.res, T: rt}
	}
	e.fail("unknown function %q", x.Fun)
	return Term{}
}

// autoTrigger picks, for every bound variable of q, one element read a[v] (outside old()) to serve
// as the pattern; nil when some variable has no such occurrence.
func autoTrigger(q *EQuant) []Expr {
	bound := map[string]bool{}
	for _, v := range q.Vars {
		bound[v.Name] = true
	}
	found := map[string]Expr{}
	var mentions func(e Expr) bool
	mentions = func(e Expr) bool {
		switch x := e.(type) {
		case *EIdent:
			return bound[x.Name]
		case *ESel:
			return mentions(x.X)
		case *EIndex:
			return mentions(x.X) || mentions(x.I)
		case *ESlice:
			return mentions(x.X) || (x.Lo != nil && mentions(x.Lo)) || (x.Hi != nil && mentions(x.Hi))
		case *ECall:
			for _, a := range x.Args {
				if mentions(a) {
					return true
				}
			}
		case *EUn:
			return mentions(x.X)
		case *EBin:
			return mentions(x.X) || mentions(x.Y)
		case *ECond:
			return mentions(x.C) || mentions(x.A) || mentions(x.B)
		case *EQuant:
			return mentions(x.Body)
		}
		return false
	}
	var walk func(e Expr, inOld bool)
	walk = func(e Expr, inOld bool) {
		switch x := e.(type) {
		case *EIndex:
			if id, ok := x.I.(*EIdent); ok && bound[id.Name] && !mentions(x.X) && !inOld {
				if _, have := found[id.Name]; !have {
					found[id.Name] = x
				}
			}
			walk(x.X, inOld)
			walk(x.I, inOld)
		case *ESel:
			walk(x.X, inOld)
		case *ESlice:
			walk(x.X, inOld)
			if x.Lo != nil {
				walk(x.Lo, inOld)
			}
			if x.Hi != nil {
				walk(x.Hi, inOld)
			}
		case *ECall:
			o := inOld || x.Fun == "old"
			for _, a := range x.Args {
				walk(a, o)
			}
		case *EUn:
			walk(x.X, inOld)
		case *EBin:
			walk(x.X, inOld)
			walk(x.Y, inOld)
		case *ECond:
			walk(x.C, inOld)
			walk(x.A, inOld)
			walk(x.B, inOld)
		case *EQuant:
			// inner quantifiers get their own triggers
		}
	}
	walk(q.Body, false)
	var out []Expr
	for _, v := range q.Vars {
		t, ok := found[v.Name]
		if !ok {
			return nil
		}
		out = append(out, t)
	}
	return out
}

// recCall translates a call of a recursive spec function: an uninterpreted
// function over its parameters plus the state variables its body reads, with
// the unfolding rule as a triggered axiom.
func (e *Env) recCall(sf *SpecFun, x *ECall) Term {
	vc := e.vc
	_, rsort := e.resolveType(sf.Result)
	fname := "rf_" + sf.Name
	key := fname
	info := vc.recInfo[key]
	if info == nil {
		scratch := vc.newState()
		scratch.epoch = -1 - len(vc.recInfo)
		scratchOld := vc.newState()
		scratchOld.epoch = -1001 - len(vc.recInfo)
		n := &Env{vc: vc, st: scratch, old: scratchOld, vars: map[string]Term{}, pkg: vc.P.logPkg.Types}
		var psorts []string
		var pnames []string
		for _, p := range sf.Params {
			pt, psort := e.resolveType(p.Type)
			n.vars[p.Name] = Term{S: "rp_" + p.Name, Sort: psort, T: pt}
			psorts = append(psorts, psort)
			pnames = append(pnames, "rp_"+p.Name)
		}
		// first pass with a placeholder to discover the state variables read
		vc.recInfo[key] = &recInfo{name: fname, psorts: psorts, rsort: rsort, pending: true}
		saveItems := len(vc.items)
		n.tr(sf.Body)
		var svars []string
		for k := range scratch.vals {
			svars = append(svars, k)
		}
		svars = sortStrings(svars)
		var ovars []string
		for k := range scratchOld.vals {
			ovars = append(ovars, k)
		}
		ovars = sortStrings(ovars)
		vc.items = vc.items[:saveItems]
		info = &recInfo{name: fname, psorts: psorts, rsort: rsort, svars: svars, ovars: ovars}
		for _, sv := range svars {
			info.ssorts = append(info.ssorts, vc.stateSort[sv])
		}
		for _, ov := range ovars {
			info.osorts = append(info.osorts, vc.stateSort[ov])
		}
		vc.recInfo[key] = info
		// second pass: real body with recursive calls resolved
		scratch2 := vc.newState()
		scratch2.epoch = scratch.epoch
		n.st = scratch2
		for _, sv := range svars {
			scratch2.vals[sv] = "rs_" + sv
		}
		scratchOld2 := vc.newState()
		scratchOld2.epoch = scratchOld.epoch
		n.old = scratchOld2
		for _, ov := range ovars {
			scratchOld2.vals[ov] = "ro_" + ov
		}
		body := n.tr(sf.Body)
		var binds []string
		for i, p := range pnames {
			binds = append(binds, fmt.Sprintf("(%s %s)", p, psorts[i]))
		}
		var sargs []string
		for i, sv := range svars {
			binds = append(binds, fmt.Sprintf("(rs_%s %s)", sv, info.ssorts[i]))
			sargs = append(sargs, "rs_"+sv)
		}
		for i, ov := range ovars {
			binds = append(binds, fmt.Sprintf("(ro_%s %s)", ov, info.osorts[i]))
			sargs = append(sargs, "ro_"+ov)
		}
		allSorts := append(append(append([]string{}, psorts...), info.ssorts...), info.osorts...)
		vc.declareFun(fname, allSorts, rsort)
		app := sx(fname, append(append([]string{}, pnames...), sargs...)...)
		vc.preamble = append(vc.preamble, fmt.Sprintf("(assert (forall (%s) (! (= %s %s) :pattern (%s))))", strings.Join(binds, " "), app, body.S, app))
	}
	if info.pending {
		// recursive occurrence during discovery: placeholder
		for _, a := range x.Args {
			e.value(e.tr(a))
		}
		return Term{S: "rec_placeholder_" + sf.Name, Sort: info.rsort}
	}
	var as []string
	for i, a := range x.Args {
		t := e.tr(a)
		if info.psorts[i] != "Int" {
			t = e.value(t)
		}
		t, _ = e.coerceNil(t, Term{Sort: info.psorts[i]})
		if t.Sort != info.psorts[i] {
			e.fail("argument %d of %s has sort %s, want %s", i+1, sf.Name, t.Sort, info.psorts[i])
		}
		as = append(as, t.S)
	}
	for i, sv := range info.svars {
		as = append(as, vc.get(e.st, sv, info.ssorts[i]))
	}
	if len(info.ovars) > 0 && e.old == nil {
		e.fail("%s uses old() but is called where no old state exists", sf.Name)
	}
	for i, ov := range info.ovars {
		as = append(as, vc.get(e.old, ov, info.osorts[i]))
	}
	var rt types.Type
	if t, _ := e.resolveType(sf.Result); t != nil {
		rt = t
	}
	return Term{S: sx(fname, as...), Sort: info.rsort, T: rt}
}

type recInfo struct {
	name    string
	psorts  []string
	rsort   string
	svars   []string
	ssorts  []string
	ovars   []string // state variables read through old()
	osorts  []string
	pending bool
}

// callsVar names the ghost call counter of function values of type t
// (one array per signature type, so values of different types never alias).
func callsVar(t types.Type) string {
	return "G_$calls_" + mangle(shortTypeName(types.Unalias(t).Underlying()))
}

func arg0Var(t types.Type) string {
	return "G_$arg0_" + mangle(shortTypeName(types.Unalias(t).Underlying()))
}

// pureConstResult finds the Go result type of a pure_const contract.
func (P *Program) pureConstResult(sp *FuncSpec) types.Type {
	if sp.IsIface {
		i := strings.LastIndex(sp.Name, ".")
		tn, mn := sp.Name[:i], sp.Name[i+1:]
		var o types.Object
		if j := strings.Index(tn, "."); j >= 0 {
			if p := P.findPkgByName(tn[:j], nil); p != nil {
				o = p.Scope().Lookup(tn[j+1:])
			}
		} else {
			o = P.logPkg.Types.Scope().Lookup(tn)
			if o == nil {
				o = types.Universe.Lookup(tn)
			}
		}
		if o == nil {
			return nil
		}
		m, _, _ := types.LookupFieldOrMethod(o.Type(), true, P.logPkg.Types, mn)
		if f, ok := m.(*types.Func); ok {
			sig := f.Type().(*types.Signature)
			if sig.Results().Len() == 1 {
				return sig.Results().At(0).Type()
			}
		}
		return nil
	}
	if fn := P.funcs[sp.Name]; fn != nil && fn.Signature.Results().Len() == 1 {
		return fn.Signature.Results().At(0).Type()
	}
	return nil
}

// pureConstApp: the result of a pure_const function is an uninterpreted function of its arguments.
func (vc *VC) pureConstApp(sp *FuncSpec, args []Term, rt types.Type) Term {
	n := "pc_" + mangle(sp.Name)
	var sorts, as []string
	for _, a := range args {
		sorts = append(sorts, a.Sort)
		as = append(as, a.S)
	}
	rs := vc.ss().sortOf(rt)
	vc.declareFun(n, sorts, rs)
	if len(as) == 0 {
		return Term{S: n, Sort: rs, T: rt}
	}
	return Term{S: sx(n, as...), Sort: rs, T: rt}
}

func (vc *VC) retFun(rt types.Type) string {
	sort := vc.ss().sortOf(rt)
	n := "ret_" + mangle(sort)
	vc.declareFun(n, []string{"Int", "Int"}, sort)
	return n
}

// makeIface wraps value v of concrete type v.T into an interface value.
func (vc *VC) makeIface(v Term) Term {
	t := v.T
	tag := vc.ss().typeTag(t)
	if _, isIface := types.Unalias(t).Underlying().(*types.Interface); isIface {
		return v
	}
	if v.Sort == "Int" {
		if b, ok := types.Unalias(t).Underlying().(*types.Basic); ok && b.Kind() == types.UntypedNil {
			return Term{S: "iface_nil", Sort: "Iface", T: types.NewInterfaceType(nil, nil)}
		}
		return Term{S: sx("mk-iface", fmt.Sprint(tag), v.S), Sort: "Iface", T: types.NewInterfaceType(nil, nil)}
	}
	box := vc.boxFun(v.Sort)
	return Term{S: sx("mk-iface", fmt.Sprint(tag), sx(box, v.S)), Sort: "Iface", T: types.NewInterfaceType(nil, nil)}
}

func (vc *VC) boxFun(sort string) string {
	n := "box_" + mangle(sort)
	if !vc.declared[n] {
		vc.declareFun(n, []string{sort}, "Int")
		vc.declareFun("un"+n, []string{"Int"}, sort)
		vc.preamble = append(vc.preamble, fmt.Sprintf("(assert (forall ((x %s)) (! (and (= (un%s (%s x)) x) (> (%s x) 0)) :pattern ((%s x)))))", sort, n, n, n, n))
	}
	return n
}

func (vc *VC) unboxIface(iface string, t types.Type) Term {
	sort := vc.ss().sortOf(t)
	if sort == "Int" {
		return Term{S: sx("if_val", iface), Sort: "Int", T: t}
	}
	box := vc.boxFun(sort)
	return Term{S: sx("un"+box, sx("if_val", iface)), Sort: sort, T: t}
}
