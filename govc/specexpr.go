package main

import (
	"fmt"
	"math/big"
	"strconv"
	"strings"
)

// ---------------------------------------------------------------------------
// Specification expression AST

type Expr interface{}

type (
	EIdent struct{ Name string }
	EInt   struct{ Val *big.Int }
	EStr   struct{ Val string }
	EBool  struct{ Val bool }
	ESel   struct {
		X    Expr
		Name string
	}
	EIndex struct{ X, I Expr }
	ESlice struct{ X, Lo, Hi Expr }
	ECall  struct {
		Fun  string
		Recv Expr // non-nil for x.m(args)
		Args []Expr
	}
	EUn struct {
		Op string
		X  Expr
	}
	EBin struct {
		Op   string
		X, Y Expr
	}
	ECond  struct{ C, A, B Expr }
	QVar   struct{ Name, Type string }
	EQuant struct {
		Forall   bool
		Vars     []QVar
		Body     Expr
		Triggers [][]Expr // optional explicit patterns: forall k int :: { s[k] } body
	}
	ETypeArg struct{ Type string } // a type used as an argument: dyn(x, *SyncLogger)
)

type tok struct {
	kind string // id int str op eof
	text string
	pos  int
}

type lexer struct {
	src  string
	toks []tok
}

func lex(src string) ([]tok, error) {
	var toks []tok
	i := 0
	n := len(src)
	ops := []string{"<==>", "==>", "::", "&&", "||", "==", "!=", "<=", ">=", "<<", ">>", "&^"}
	for i < n {
		c := src[i]
		switch {
		case c == ' ' || c == '\t' || c == '\n' || c == '\r':
			i++
		case c == '_' || c == '$' || (c >= 'a' && c <= 'z') || (c >= 'A' && c <= 'Z'):
			j := i
			for j < n && (src[j] == '_' || src[j] == '$' || (src[j] >= 'a' && src[j] <= 'z') || (src[j] >= 'A' && src[j] <= 'Z') || (src[j] >= '0' && src[j] <= '9')) {
				j++
			}
			toks = append(toks, tok{"id", src[i:j], i})
			i = j
		case c >= '0' && c <= '9':
			j := i
			for j < n && ((src[j] >= '0' && src[j] <= '9') || (src[j] >= 'a' && src[j] <= 'f') || (src[j] >= 'A' && src[j] <= 'F') || src[j] == 'x' || src[j] == 'X' || src[j] == '_') {
				j++
			}
			toks = append(toks, tok{"int", src[i:j], i})
			i = j
		case c == '"':
			j := i + 1
			for j < n && src[j] != '"' {
				if src[j] == '\\' {
					j++
				}
				j++
			}
			if j >= n {
				return nil, fmt.Errorf("unterminated string at %d", i)
			}
			s, err := strconv.Unquote(src[i : j+1])
			if err != nil {
				return nil, fmt.Errorf("bad string %s: %v", src[i:j+1], err)
			}
			toks = append(toks, tok{"str", s, i})
			i = j + 1
		case c == '\'':
			j := i + 1
			for j < n && src[j] != '\'' {
				if src[j] == '\\' {
					j++
				}
				j++
			}
			if j >= n {
				return nil, fmt.Errorf("unterminated char at %d", i)
			}
			r, _, _, err := strconv.UnquoteChar(src[i+1:j], '\'')
			if err != nil {
				return nil, fmt.Errorf("bad char %s: %v", src[i:j+1], err)
			}
			toks = append(toks, tok{"int", strconv.Itoa(int(r)), i})
			i = j + 1
		default:
			matched := false
			for _, op := range ops {
				if strings.HasPrefix(src[i:], op) {
					toks = append(toks, tok{"op", op, i})
					i += len(op)
					matched = true
					break
				}
			}
			if !matched {
				if strings.ContainsRune("+-*/%&|^!<>()[]{},:?.=", rune(c)) {
					toks = append(toks, tok{"op", string(c), i})
					i++
				} else {
					return nil, fmt.Errorf("unexpected character %q at %d in %q", c, i, src)
				}
			}
		}
	}
	toks = append(toks, tok{"eof", "", n})
	return toks, nil
}

type parser struct {
	toks []tok
	p    int
	src  string
}

func parseExpr(src string) (e Expr, err error) {
	toks, err := lex(src)
	if err != nil {
		return nil, err
	}
	ps := &parser{toks: toks, src: src}
	defer func() {
		if r := recover(); r != nil {
			if pe, ok := r.(parseErr); ok {
				err = fmt.Errorf("%s (in %q)", string(pe), src)
				return
			}
			panic(r)
		}
	}()
	e = ps.expr()
	if ps.peek().kind != "eof" {
		ps.fail("unexpected %q", ps.peek().text)
	}
	return e, nil
}

type parseErr string

func (ps *parser) fail(f string, a ...any) {
	panic(parseErr(fmt.Sprintf(f, a...) + fmt.Sprintf(" at offset %d", ps.peek().pos)))
}
func (ps *parser) peek() tok { return ps.toks[ps.p] }
func (ps *parser) next() tok { t := ps.toks[ps.p]; ps.p++; return t }
func (ps *parser) isOp(s string) bool {
	t := ps.peek()
	return t.kind == "op" && t.text == s
}
func (ps *parser) accept(s string) bool {
	if ps.isOp(s) {
		ps.p++
		return true
	}
	return false
}
func (ps *parser) expect(s string) {
	if !ps.accept(s) {
		ps.fail("expected %q, found %q", s, ps.peek().text)
	}
}

func (ps *parser) expr() Expr {
	t := ps.peek()
	if t.kind == "id" && (t.text == "forall" || t.text == "exists") {
		ps.next()
		var vars []QVar
		for {
			var names []string
			for {
				nt := ps.next()
				if nt.kind != "id" {
					ps.fail("expected bound variable name")
				}
				names = append(names, nt.text)
				if !ps.accept(",") {
					break
				}
				// lookahead: "name type ," vs "name , name type"
			}
			typ := "int"
			if !ps.isOp("::") && !ps.isOp(";") {
				typ = ps.typeText()
			}
			for _, n := range names {
				vars = append(vars, QVar{n, typ})
			}
			if ps.accept(";") || ps.accept(",") {
				continue
			}
			break
		}
		ps.expect("::")
		var trigs [][]Expr
		for ps.accept("{") {
			var group []Expr
			for {
				group = append(group, ps.expr())
				if ps.accept(",") {
					continue
				}
				break
			}
			ps.expect("}")
			trigs = append(trigs, group)
		}
		body := ps.expr()
		return &EQuant{Forall: t.text == "forall", Vars: vars, Body: body, Triggers: trigs}
	}
	return ps.iff()
}

// typeText reads a Go-ish type: *T, []T, map[K]V, pkg.T, T
func (ps *parser) typeText() string {
	var b strings.Builder
	for {
		if ps.accept("*") {
			b.WriteString("*")
			continue
		}
		if ps.isOp("[") {
			ps.next()
			ps.expect("]")
			b.WriteString("[]")
			continue
		}
		break
	}
	t := ps.next()
	if t.kind != "id" {
		ps.fail("expected type name, found %q", t.text)
	}
	if t.text == "map" || t.text == "gomap" {
		ps.expect("[")
		k := ps.typeText()
		ps.expect("]")
		v := ps.typeText()
		b.WriteString(t.text + "[" + k + "]" + v)
		return b.String()
	}
	b.WriteString(t.text)
	if ps.isOp(".") && ps.toks[ps.p+1].kind == "id" {
		ps.next()
		b.WriteString("." + ps.next().text)
	}
	return b.String()
}

func (ps *parser) iff() Expr {
	x := ps.impl()
	for ps.accept("<==>") {
		y := ps.impl()
		x = &EBin{"<==>", x, y}
	}
	return x
}

func (ps *parser) impl() Expr {
	x := ps.cond()
	if ps.accept("==>") {
		var y Expr
		if t := ps.peek(); t.kind == "id" && (t.text == "forall" || t.text == "exists") {
			y = ps.expr()
		} else {
			y = ps.impl()
		}
		return &EBin{"==>", x, y}
	}
	return x
}

func (ps *parser) cond() Expr {
	c := ps.lor()
	if ps.accept("?") {
		a := ps.cond()
		ps.expect(":")
		b := ps.cond()
		return &ECond{c, a, b}
	}
	return c
}

func (ps *parser) lor() Expr {
	x := ps.land()
	for ps.accept("||") {
		x = &EBin{"||", x, ps.land()}
	}
	return x
}

func (ps *parser) land() Expr {
	x := ps.cmp()
	for ps.accept("&&") {
		x = &EBin{"&&", x, ps.cmp()}
	}
	return x
}

func (ps *parser) cmp() Expr {
	x := ps.add()
	// chained comparisons a <= b < c
	var res Expr
	for {
		t := ps.peek()
		if t.kind == "op" && (t.text == "==" || t.text == "!=" || t.text == "<" || t.text == "<=" || t.text == ">" || t.text == ">=") {
			ps.next()
			y := ps.add()
			c := &EBin{t.text, x, y}
			if res == nil {
				res = c
			} else {
				res = &EBin{"&&", res, c}
			}
			x = y
			continue
		}
		break
	}
	if res != nil {
		return res
	}
	return x
}

func (ps *parser) add() Expr {
	x := ps.mul()
	for {
		t := ps.peek()
		if t.kind == "op" && (t.text == "+" || t.text == "-" || t.text == "|" || t.text == "^") {
			ps.next()
			x = &EBin{t.text, x, ps.mul()}
			continue
		}
		return x
	}
}

func (ps *parser) mul() Expr {
	x := ps.unary()
	for {
		t := ps.peek()
		if t.kind == "op" && (t.text == "*" || t.text == "/" || t.text == "%" || t.text == "&" || t.text == "<<" || t.text == ">>") {
			ps.next()
			x = &EBin{t.text, x, ps.unary()}
			continue
		}
		return x
	}
}

func (ps *parser) unary() Expr {
	if ps.accept("!") {
		return &EUn{"!", ps.unary()}
	}
	if ps.accept("-") {
		return &EUn{"-", ps.unary()}
	}
	if ps.isOp("*") || ps.isOp("[") {
		// a type argument such as *SyncLogger or []byte
		return &ETypeArg{ps.typeText()}
	}
	return ps.postfix()
}

func (ps *parser) postfix() Expr {
	x := ps.primary()
	for {
		switch {
		case ps.accept("."):
			t := ps.next()
			if t.kind != "id" {
				ps.fail("expected field name after '.'")
			}
			if ps.isOp("(") {
				ps.next()
				args := ps.args()
				x = &ECall{Fun: t.text, Recv: x, Args: args}
			} else {
				x = &ESel{x, t.text}
			}
		case ps.accept("["):
			if ps.accept(":") {
				hi := ps.expr()
				ps.expect("]")
				x = &ESlice{x, nil, hi}
				continue
			}
			i := ps.expr()
			if ps.accept(":") {
				if ps.accept("]") {
					x = &ESlice{x, i, nil}
					continue
				}
				hi := ps.expr()
				ps.expect("]")
				x = &ESlice{x, i, hi}
				continue
			}
			ps.expect("]")
			x = &EIndex{x, i}
		default:
			return x
		}
	}
}

func (ps *parser) args() []Expr {
	var args []Expr
	if ps.accept(")") {
		return args
	}
	for {
		args = append(args, ps.expr())
		if ps.accept(",") {
			continue
		}
		ps.expect(")")
		return args
	}
}

func (ps *parser) primary() Expr {
	t := ps.next()
	switch t.kind {
	case "int":
		s := strings.ReplaceAll(t.text, "_", "")
		v, ok := new(big.Int).SetString(s, 0)
		if !ok {
			ps.fail("bad integer %q", t.text)
		}
		return &EInt{v}
	case "str":
		return &EStr{t.text}
	case "id":
		switch t.text {
		case "true":
			return &EBool{true}
		case "false":
			return &EBool{false}
		}
		if (t.text == "map" || t.text == "gomap") && ps.isOp("[") {
			ps.p--
			return &ETypeArg{ps.typeText()}
		}
		if ps.isOp("(") {
			ps.next()
			return &ECall{Fun: t.text, Args: ps.args()}
		}
		return &EIdent{t.text}
	case "op":
		if t.text == "(" {
			e := ps.expr()
			ps.expect(")")
			return e
		}
	}
	ps.p--
	ps.fail("unexpected %q", t.text)
	return nil
}

func exprString(e Expr) string {
	switch x := e.(type) {
	case *EIdent:
		return x.Name
	case *EInt:
		return x.Val.String()
	case *EStr:
		return strconv.Quote(x.Val)
	case *EBool:
		return fmt.Sprint(x.Val)
	case *ESel:
		return exprString(x.X) + "." + x.Name
	case *EIndex:
		return exprString(x.X) + "[" + exprString(x.I) + "]"
	case *ESlice:
		lo, hi := "", ""
		if x.Lo != nil {
			lo = exprString(x.Lo)
		}
		if x.Hi != nil {
			hi = exprString(x.Hi)
		}
		return exprString(x.X) + "[" + lo + ":" + hi + "]"
	case *ECall:
		var as []string
		for _, a := range x.Args {
			as = append(as, exprString(a))
		}
		if x.Recv != nil {
			return exprString(x.Recv) + "." + x.Fun + "(" + strings.Join(as, ", ") + ")"
		}
		return x.Fun + "(" + strings.Join(as, ", ") + ")"
	case *EUn:
		return x.Op + exprString(x.X)
	case *EBin:
		return "(" + exprString(x.X) + " " + x.Op + " " + exprString(x.Y) + ")"
	case *ECond:
		return "(" + exprString(x.C) + " ? " + exprString(x.A) + " : " + exprString(x.B) + ")"
	case *EQuant:
		q := "exists"
		if x.Forall {
			q = "forall"
		}
		var vs []string
		for _, v := range x.Vars {
			vs = append(vs, v.Name+" "+v.Type)
		}
		return "(" + q + " " + strings.Join(vs, ", ") + " :: " + exprString(x.Body) + ")"
	case *ETypeArg:
		return x.Type
	}
	return "?"
}
