package main

import (
	"context"
	"fmt"
	"go/ast"
	"go/token"
	"go/types"
	"os"
	"path/filepath"
	"sort"
	"strconv"
	"strings"
	"time"

	"golang.org/x/tools/go/packages"
	"golang.org/x/tools/go/ssa"
	"golang.org/x/tools/go/ssa/ssautil"
)

const logPath = "github.com/go-spring/log"

type Program struct {
	fset          *token.FileSet
	prog          *ssa.Program
	pkgs          []*packages.Package
	logPkg        *packages.Package
	exprPkg       *packages.Package
	logSSA        *ssa.Package
	exprSSA       *ssa.Package
	allTypesPkgs  []*types.Package
	spec          *SpecFile
	ss            *Sorts
	prelude       *Prelude
	funcs         map[string]*ssa.Function // spec name -> function
	repo          string
	verifDir      string
	closureNames  map[*ssa.Function]string
	variant       map[string]string // base contract name -> chosen alternative ("B")
	foreignStores []string          // stores of this repository into package-level variables of other packages
}

// alternatives lists the functions that have an alternative contract name@B.
func (P *Program) alternatives() []string {
	var out []string
	for _, n := range P.spec.FuncOrder {
		if strings.HasSuffix(n, "@B") {
			out = append(out, strings.TrimSuffix(n, "@B"))
		}
	}
	return out
}

// specNamed returns the contract registered under name, honouring the chosen alternative.
func (P *Program) specNamed(name string) *FuncSpec {
	if P.variant[name] == "B" {
		if s, ok := P.spec.Funcs[name+"@B"]; ok {
			return s
		}
	}
	return P.spec.Funcs[name]
}

// specName gives the name under which a function is looked up in contract files.
func (P *Program) specName(fn *ssa.Function) string {
	if n, ok := P.closureNames[fn]; ok {
		return n
	}
	if fn.Parent() != nil {
		return P.specName(fn.Parent()) + "$" + strings.TrimPrefix(fn.Name(), fn.Parent().Name()+"$")
	}
	qual := func(p *types.Package) string {
		if p == nil || p.Path() == logPath {
			return ""
		}
		return p.Name()
	}
	name := fn.Name()
	if recv := fn.Signature.Recv(); recv != nil {
		return "(" + types.TypeString(recv.Type(), qual) + ")." + name
	}
	if fn.Pkg != nil && fn.Pkg.Pkg.Path() != logPath {
		return fn.Pkg.Pkg.Name() + "." + name
	}
	if fn.Pkg == nil && fn.Origin() != nil && fn.Origin().Pkg != nil && fn.Origin().Pkg.Pkg.Path() != logPath {
		return fn.Origin().Pkg.Pkg.Name() + "." + name
	}
	if fn.Pkg == nil && fn.Object() != nil && fn.Object().Pkg() != nil && fn.Object().Pkg().Path() != logPath {
		return fn.Object().Pkg().Name() + "." + name
	}
	return name
}

// findSpec finds the contract of fn: exact name, then the generic origin's name.
func (P *Program) findSpec(fn *ssa.Function) *FuncSpec {
	n := P.specName(fn)
	if s := P.specNamed(n); s != nil {
		return s
	}
	if i := strings.Index(n, "["); i >= 0 && strings.HasSuffix(n, "]") {
		// generic instance Int[int8] -> Int ; (sliceOfInt[int8]).EncodeArray -> (sliceOfInt).EncodeArray
		base := stripTypeArgs(n)
		if s, ok := P.spec.Funcs[base]; ok {
			return s
		}
	}
	if strings.Contains(n, "[") {
		if s, ok := P.spec.Funcs[stripTypeArgs(n)]; ok {
			return s
		}
	}
	return nil
}

func stripTypeArgs(n string) string {
	var b strings.Builder
	d := 0
	for _, r := range n {
		switch r {
		case '[':
			d++
		case ']':
			d--
		default:
			if d == 0 {
				b.WriteRune(r)
			}
		}
	}
	return b.String()
}

func (P *Program) findPkgByName(name string, from *types.Package) *types.Package {
	if from != nil {
		for _, imp := range from.Imports() {
			if imp.Name() == name {
				return imp
			}
		}
	}
	for _, imp := range P.logPkg.Types.Imports() {
		if imp.Name() == name {
			return imp
		}
	}
	for _, p := range P.allTypesPkgs {
		if p.Name() == name {
			return p
		}
	}
	return nil
}

func loadProgram(repo, verifDir string) (*Program, error) {
	cfg := &packages.Config{
		Mode:       packages.LoadAllSyntax,
		Dir:        repo,
		BuildFlags: []string{"-tags=verif"},
		Env:        append(os.Environ(), "GOFLAGS=-mod=mod", "GOPROXY=off"),
	}
	pkgs, err := packages.Load(cfg, logPath, logPath+"/expr")
	if err != nil {
		return nil, err
	}
	var errs []string
	packages.Visit(pkgs, nil, func(p *packages.Package) {
		for _, e := range p.Errors {
			errs = append(errs, e.Error())
		}
	})
	if len(errs) > 0 {
		return nil, fmt.Errorf("the tree does not type-check: %s", strings.Join(errs, "; "))
	}
	prog, spkgs := ssautil.AllPackages(pkgs, ssa.InstantiateGenerics|ssa.GlobalDebug)
	prog.Build()
	P := &Program{prog: prog, pkgs: pkgs, ss: newSorts(), funcs: map[string]*ssa.Function{}, repo: repo, verifDir: verifDir,
		closureNames: map[*ssa.Function]string{}}
	for i, p := range pkgs {
		switch p.PkgPath {
		case logPath:
			P.logPkg = p
			P.logSSA = spkgs[i]
		case logPath + "/expr":
			P.exprPkg = p
			P.exprSSA = spkgs[i]
		}
	}
	if P.logPkg == nil {
		return nil, fmt.Errorf("package %s not loaded", logPath)
	}
	P.fset = P.logPkg.Fset
	seen := map[*types.Package]bool{}
	packages.Visit(pkgs, nil, func(p *packages.Package) {
		if p.Types != nil && !seen[p.Types] {
			seen[p.Types] = true
			P.allTypesPkgs = append(P.allTypesPkgs, p.Types)
		}
	})
	sort.Slice(P.allTypesPkgs, func(i, j int) bool { return P.allTypesPkgs[i].Path() < P.allTypesPkgs[j].Path() })

	// name closures after the variable they are assigned to
	for _, pk := range []*packages.Package{P.logPkg, P.exprPkg} {
		if pk == nil {
			continue
		}
		P.nameClosures(pk)
	}

	// index all functions by spec name
	for fn := range ssautil.AllFunctions(prog) {
		n := P.specName(fn)
		if old, ok := P.funcs[n]; ok && old != fn {
			// prefer non-synthetic
			if old.Synthetic == "" {
				continue
			}
		}
		P.funcs[n] = fn
	}

	// the package-boundary frame rule (havocForeign) rests on this: the repository never writes a
	// package-level variable of another package
	for fn := range ssautil.AllFunctions(prog) {
		var home *types.Package
		for f := fn; f != nil; f = f.Parent() {
			if f.Pkg != nil {
				home = f.Pkg.Pkg
				break
			}
		}
		if home == nil || !strings.HasPrefix(home.Path(), logPath) {
			continue
		}
		for _, b := range fn.Blocks {
			for _, in := range b.Instrs {
				st, ok := in.(*ssa.Store)
				if !ok {
					continue
				}
				root := st.Addr
				for {
					switch x := root.(type) {
					case *ssa.FieldAddr:
						root = x.X
						continue
					case *ssa.IndexAddr:
						root = x.X
						continue
					}
					break
				}
				if g, ok := root.(*ssa.Global); ok && g.Pkg != nil && g.Pkg.Pkg != home {
					P.foreignStores = append(P.foreignStores, fmt.Sprintf("%s writes %s", fn.String(), g.String()))
				}
			}
		}
	}
	sort.Strings(P.foreignStores)

	// contracts
	P.spec = newSpecFile()
	for _, f := range []string{filepath.Join(repo, "zz_contracts_verif.go"), filepath.Join(repo, "expr", "zz_contracts_verif.go")} {
		if _, err := os.Stat(f); err == nil {
			if err := P.spec.load(f, false); err != nil {
				return nil, err
			}
		}
	}
	ext, _ := filepath.Glob(filepath.Join(verifDir, "specs", "*.vc"))
	sort.Strings(ext)
	for _, f := range ext {
		if err := P.spec.load(f, true); err != nil {
			return nil, err
		}
	}
	P.prelude, err = loadPrelude(filepath.Join(verifDir, "specs", "prelude"))
	if err != nil {
		return nil, err
	}
	// struct sorts the prelude theories mention
	for _, tp := range P.allTypesPkgs {
		if tp.Path() == "time" {
			if o := tp.Scope().Lookup("Time"); o != nil {
				P.ss.sortOf(o.Type())
			}
		}
	}
	P.prelude.structDecls = P.ss.decls()
	return P, nil
}

// nameClosures maps function literals assigned to a named variable
// (x := func..., var x = func..., x = func...) to "Outer/x".
func (P *Program) nameClosures(pk *packages.Package) {
	litName := map[token.Pos]string{}
	for _, f := range pk.Syntax {
		ast.Inspect(f, func(n ast.Node) bool {
			switch s := n.(type) {
			case *ast.AssignStmt:
				for i, rhs := range s.Rhs {
					if fl, ok := rhs.(*ast.FuncLit); ok && i < len(s.Lhs) {
						if id, ok := s.Lhs[i].(*ast.Ident); ok {
							litName[fl.Pos()] = id.Name
						}
					}
				}
			case *ast.ValueSpec:
				for i, rhs := range s.Values {
					if fl, ok := rhs.(*ast.FuncLit); ok && i < len(s.Names) {
						litName[fl.Pos()] = s.Names[i].Name
					}
				}
			case *ast.CallExpr:
				// a function literal registered under a string key: F("key", func...) is named F(key)
				if len(s.Args) >= 2 {
					if bl, ok := s.Args[0].(*ast.BasicLit); ok && bl.Kind == token.STRING {
						fname := ""
						switch f := s.Fun.(type) {
						case *ast.Ident:
							fname = f.Name
						case *ast.SelectorExpr:
							fname = f.Sel.Name
						}
						if key, err := strconv.Unquote(bl.Value); err == nil && fname != "" {
							for _, a := range s.Args[1:] {
								if fl, ok := a.(*ast.FuncLit); ok {
									litName[fl.Pos()] = fname + "(" + key + ")"
								}
							}
						}
					}
				}
			}
			return true
		})
	}
	var visit func(fn *ssa.Function)
	visit = func(fn *ssa.Function) {
		yields := 0
		for _, af := range fn.AnonFuncs {
			if n, ok := litName[af.Pos()]; ok {
				P.closureNames[af] = P.specName(fn) + "/" + n
				if fn.Name() == "init" || strings.HasPrefix(fn.Name(), "init#") {
					// the ordinal of an init function is not a stable name
					P.closureNames[af] = n
				}
			}
			// the body of a range-over-func loop is a synthetic function: Outer/rangefuncK, K in source order
			if af.Synthetic == "range-over-func yield" {
				yields++
				P.closureNames[af] = fmt.Sprintf("%s/rangefunc%d", P.specName(fn), yields)
			}
			visit(af)
		}
	}
	var sp *ssa.Package
	if pk == P.logPkg {
		sp = P.logSSA
	} else {
		sp = P.exprSSA
	}
	if sp == nil {
		return
	}
	for _, m := range sp.Members {
		if fn, ok := m.(*ssa.Function); ok {
			visit(fn)
		}
	}
	for _, m := range sp.Members {
		if t, ok := m.(*ssa.Type); ok {
			for _, recv := range []types.Type{t.Type(), types.NewPointer(t.Type())} {
				ms := P.prog.MethodSets.MethodSet(recv)
				for i := 0; i < ms.Len(); i++ {
					if fn := P.prog.MethodValue(ms.At(i)); fn != nil {
						visit(fn)
					}
				}
			}
		}
	}
}

// ---------------------------------------------------------------------------
// Prelude theories

type funSig struct {
	args []string
	res  string
	file string
}

type preludeFile struct {
	name    string
	text    string
	depends []string
}

type Prelude struct {
	structDecls string
	files       map[string]*preludeFile
	order       []string
	funs        map[string]funSig
	sorts       map[string]bool
	sortFile    map[string]string
	used        map[*VC]map[string]bool
}

func (p *Prelude) use(vc *VC, fun string) {
	sig, ok := p.funs[fun]
	if !ok {
		return
	}
	if vc.symsUsed == nil {
		vc.symsUsed = map[string]bool{}
	}
	vc.symsUsed[fun] = true
	if p.used[vc] == nil {
		p.used[vc] = map[string]bool{}
	}
	p.used[vc][sig.file] = true
}

func (p *Prelude) useFile(vc *VC, file string) {
	if p.used[vc] == nil {
		p.used[vc] = map[string]bool{}
	}
	p.used[vc][file] = true
}

// textFor returns the prelude text needed by vc (core first, then dependencies in order).
func (p *Prelude) textFor(vc *VC) string {
	need := map[string]bool{"core": true}
	var add func(n string)
	add = func(n string) {
		if need[n] {
			return
		}
		need[n] = true
		if f := p.files[n]; f != nil {
			for _, d := range f.depends {
				add(d)
			}
		}
	}
	for f := range p.used[vc] {
		add(f)
	}
	// theories whose sorts occur in the declarations of this VC
	for _, d := range vc.decls {
		for sortName, f := range p.sortFile {
			if strings.Contains(d, sortName) {
				add(f)
			}
		}
	}
	for _, u := range vc.P.spec.Uses {
		add(u)
	}
	// iterate to closure over dependencies
	for n := range need {
		if f := p.files[n]; f != nil {
			for _, d := range f.depends {
				add(d)
			}
		}
	}
	var b strings.Builder
	for _, n := range p.order {
		if need[n] {
			b.WriteString("; ---- prelude " + n + "\n")
			b.WriteString(p.files[n].text)
			b.WriteString("\n")
			if n == "core" {
				// sorts generated from Go struct types come right after the core sorts
				b.WriteString("; ---- struct sorts\n")
				if vc.fn == nil {
					// a lemma or a static fact: no code, hence no struct sorts beyond those it names itself
					// (keeps the query independent of which functions happen to be checked in the same run)
					b.WriteString("; @@STRUCT-SORTS@@\n")
				} else {
					b.WriteString(vc.ss().decls())
				}
			}
		}
	}
	return b.String()
}

// inconsistent checks each theory together with its dependencies; returns the name of a theory
// from which a solver derives false, or "".
func (p *Prelude) inconsistent(scratch string) string {
	type res struct{ name, out string }
	ch := make(chan res, len(p.order))
	for _, n := range p.order {
		go func(n string) {
			need := map[string]bool{"core": true}
			var add func(x string)
			add = func(x string) {
				if need[x] {
					return
				}
				need[x] = true
				if f := p.files[x]; f != nil {
					for _, d := range f.depends {
						add(d)
					}
				}
			}
			add(n)
			var b strings.Builder
			b.WriteString("(set-logic ALL)\n")
			for _, m := range p.order {
				if need[m] {
					b.WriteString(p.files[m].text)
					b.WriteString("\n")
					if m == "core" {
						b.WriteString(p.structDecls)
					}
				}
			}
			b.WriteString("(check-sat)\n")
			file := filepath.Join(scratch, "prelude_"+n+".smt2")
			os.WriteFile(file, []byte(b.String()), 0644)
			r := runSolver(context.Background(), solvers[0], file, 3*time.Second)
			ch <- res{n, r.result}
		}(n)
	}
	bad := ""
	for range p.order {
		r := <-ch
		if r.out == "unsat" {
			bad = r.name
		}
	}
	return bad
}

func loadPrelude(dir string) (*Prelude, error) {
	p := &Prelude{files: map[string]*preludeFile{}, funs: map[string]funSig{}, sorts: map[string]bool{}, sortFile: map[string]string{}, used: map[*VC]map[string]bool{}}
	names, _ := filepath.Glob(filepath.Join(dir, "*.smt2"))
	sort.Strings(names)
	for _, path := range names {
		b, err := os.ReadFile(path)
		if err != nil {
			return nil, err
		}
		name := strings.TrimSuffix(filepath.Base(path), ".smt2")
		// files are named NN_name.smt2 to fix the order
		if i := strings.Index(name, "_"); i >= 0 && i <= 2 {
			name = name[i+1:]
		}
		pf := &preludeFile{name: name, text: string(b)}
		for _, line := range strings.Split(string(b), "\n") {
			if strings.HasPrefix(line, "; depends:") {
				pf.depends = strings.Fields(strings.TrimPrefix(line, "; depends:"))
			}
		}
		p.files[name] = pf
		p.order = append(p.order, name)
		for _, sexp := range topLevelSexps(string(b)) {
			toks := sexpTokens(sexp)
			if len(toks) < 3 {
				continue
			}
			switch toks[1] {
			case "declare-fun":
				// (declare-fun name (S1 S2) R)
				args, rest := sexpList(sexp, 2)
				p.funs[toks[2]] = funSig{args: args, res: rest, file: name}
			case "declare-const":
				p.funs[toks[2]] = funSig{res: strings.TrimSpace(strings.TrimSuffix(strings.TrimSpace(sexp[strings.Index(sexp, toks[2])+len(toks[2]):]), ")")), file: name}
			case "define-fun", "define-fun-rec":
				args, res := defineFunSig(sexp)
				p.funs[toks[2]] = funSig{args: args, res: res, file: name}
			case "declare-datatypes":
				// (declare-datatypes ((Name 0)) (((ctor (acc Sort) ...) ...)))
				parseDatatype(sexp, name, p)
			case "declare-sort":
				p.sorts[toks[2]] = true
			}
		}
	}
	return p, nil
}

func topLevelSexps(s string) []string {
	var out []string
	d := 0
	start := -1
	inComment := false
	for i := 0; i < len(s); i++ {
		c := s[i]
		if inComment {
			if c == '\n' {
				inComment = false
			}
			continue
		}
		switch c {
		case ';':
			inComment = true
		case '(':
			if d == 0 {
				start = i
			}
			d++
		case ')':
			d--
			if d == 0 && start >= 0 {
				out = append(out, s[start:i+1])
				start = -1
			}
		}
	}
	return out
}

func sexpTokens(s string) []string {
	s = strings.NewReplacer("(", " ( ", ")", " ) ").Replace(s)
	return strings.Fields(s)
}

// parse a nested s-expression into a tree
type sexpNode struct {
	atom string
	kids []*sexpNode
}

func parseSexp(toks []string, p *int) *sexpNode {
	if toks[*p] == "(" {
		*p++
		n := &sexpNode{}
		for toks[*p] != ")" {
			n.kids = append(n.kids, parseSexp(toks, p))
		}
		*p++
		return n
	}
	n := &sexpNode{atom: toks[*p]}
	*p++
	return n
}

func (n *sexpNode) String() string {
	if n.kids == nil && n.atom != "" {
		return n.atom
	}
	var ks []string
	for _, k := range n.kids {
		ks = append(ks, k.String())
	}
	return "(" + strings.Join(ks, " ") + ")"
}

func sexpList(s string, idx int) (args []string, res string) {
	toks := sexpTokens(stripComments(s))
	p := 0
	n := parseSexp(toks, &p)
	// (declare-fun name (args) res)
	if len(n.kids) < 5-1 {
		return nil, ""
	}
	for _, a := range n.kids[2].kids {
		args = append(args, a.String())
	}
	return args, n.kids[3].String()
}

func defineFunSig(s string) (args []string, res string) {
	toks := sexpTokens(stripComments(s))
	p := 0
	n := parseSexp(toks, &p)
	// (define-fun name ((x S) ...) R body)
	for _, a := range n.kids[2].kids {
		args = append(args, a.kids[1].String())
	}
	return args, n.kids[3].String()
}

func stripComments(s string) string {
	var b strings.Builder
	for _, line := range strings.Split(s, "\n") {
		if i := strings.Index(line, ";"); i >= 0 {
			line = line[:i]
		}
		b.WriteString(line)
		b.WriteByte('\n')
	}
	return b.String()
}

func parseDatatype(s, file string, p *Prelude) {
	toks := sexpTokens(stripComments(s))
	pp := 0
	n := parseSexp(toks, &pp)
	// kids[1] = ((Name 0) ...), kids[2] = ((ctors...) ...)
	for i, decl := range n.kids[1].kids {
		sortName := decl.kids[0].atom
		p.sorts[sortName] = true
		p.sortFile[sortName] = file
		for _, ctor := range n.kids[2].kids[i].kids {
			if ctor.kids == nil {
				p.funs[ctor.atom] = funSig{res: sortName, file: file}
				continue
			}
			cname := ctor.kids[0].atom
			var args []string
			for _, acc := range ctor.kids[1:] {
				args = append(args, acc.kids[1].String())
				p.funs[acc.kids[0].atom] = funSig{args: []string{sortName}, res: acc.kids[1].String(), file: file}
			}
			p.funs[cname] = funSig{args: args, res: sortName, file: file}
			p.funs["is-"+cname] = funSig{args: []string{sortName}, res: "Bool", file: file}
		}
	}
}
