package main

import (
	"bufio"
	"fmt"
	"os"
	"regexp"
	"strconv"
	"strings"
)

// ---------------------------------------------------------------------------
// Contract files: //@ lines

type Clause struct {
	Kind   string   // requires ensures modifies invariant decreases panics_iff ensures_on_panic let assume_callee
	Props  []string // property ids this clause serves
	Label  string
	Text   string
	Expr   Expr
	LHS    Expr   // ghost assignment target
	Name   string // let name
	Loop   int    // loop ordinal for invariant/decreases
	File   string
	Line   int
	Index  int // ordinal among clauses of the same kind in this function
	Always bool
	// Assumed: a postcondition the callers may use but the body is not checked against (what the
	// unmodelled part of the body -- reflection -- is taken to do); listed with the assumptions
	Assumed bool
}

type FuncSpec struct {
	Name        string // WriteLogString, (*BaseLayout).GetFileLine, strings.TrimSpace, Refresh/findLoggerForTag
	IsIface     bool
	Extern      bool // assumed contract (from externs file)
	Params      []string
	Results     []string
	Pure        bool
	PureConst   bool // pure and independent of the heap: a function of its arguments only
	Inline      bool
	Trusted     bool // contract assumed, body not verified (listed as assumption)
	Clauses     []*Clause
	Replay      map[string]string // replay variable -> expression text
	ReplayKeys  []string
	Synchronous []string // property ids: the body must not spawn, send on channels or defer
	IsSync      bool
	Recovers    bool     // a deferred handler: calls recover() and turns a panic into results
	NoOverflow  []string // property ids: integer arithmetic and narrowing conversions must not wrap
	NoPanic     []string // property ids for implicit-panic obligations
	HasNoPanic  bool
	Floor       int // minimal number of obligations expected
	File        string
	Line        int
	Callee      map[string]string // free variable name -> spec name it is assumed to hold
	Props       []string          // union
}

type GhostField struct {
	Name string
	Sort string // spec type text
}

type SpecFun struct {
	Name     string
	Params   []QVar
	Result   string
	Body     Expr
	Text     string
	Rec      bool
	Abstract bool
}

type Lemma struct {
	Name  string
	Props []string
	Expr  Expr
	Text  string
	Uses  []string
}

// Immutable: `immutable[C01,C10] LoggerBase.Level via Logger.GetLevel` -- no instruction of the repository
// stores to the field, and every implementation of the interface method is the named accessor.
type Immutable struct {
	Props  []string
	Struct string
	Field  string
	Iface  string // optional: Interface.Method all of whose implementations must be the accessor below
	File   string
	Line   int
}

type SpecFile struct {
	Funcs       map[string]*FuncSpec
	FuncOrder   []string
	GhostFields map[string]*GhostField
	GhostVars   map[string]string // name -> type text
	GhostExtern map[string]bool   // ghost variables declared in the externs file: they model state outside the repository
	GhostOrder  []string
	SpecFuns    map[string]*SpecFun
	Axioms      []*Clause
	Lemmas      []*Lemma
	Invs        map[string][]*Clause // type name -> invariants
	ChanInvs    map[string]*Clause   // "Struct.field" -> invariant of the items sent on that channel (variable v)
	Uses        []string             // prelude files always included
	Immutables  []*Immutable         // fields the repository's code never writes (checked over the SSA form)
}

func newSpecFile() *SpecFile {
	return &SpecFile{
		Funcs:       map[string]*FuncSpec{},
		GhostFields: map[string]*GhostField{},
		GhostVars:   map[string]string{},
		GhostExtern: map[string]bool{},
		SpecFuns:    map[string]*SpecFun{},
		Invs:        map[string][]*Clause{},
		ChanInvs:    map[string]*Clause{},
	}
}

var clauseHead = regexp.MustCompile(`^(requires|ensures_on_panic|ensures|assumes|maintains|modifies|invariant|iteration|decreases|panics_iff|assert|always|writes_own_objects|writes_loop_objects)(\[[^\]]*\])?\s*(.*)$`)

var knownKeywords = map[string]bool{
	"func": true, "iface": true, "ghost": true, "chaninv": true, "smtfun": true, "spec": true, "axiom": true, "lemma": true,
	"requires": true, "ensures": true, "maintains": true, "modifies": true, "pure": true, "pure_const": true, "inline": true, "let": true, "loop": true,
	"panics_iff": true, "ensures_on_panic": true, "replay": true, "nopanic": true, "synchronous": true, "params": true, "results": true,
	"trusted": true, "floor": true, "callee": true, "use": true, "extern": true, "decreases": true, "recovers": true, "may_panic": true, "nooverflow": true, "rangefunc": true, "immutable": true, "always": true, "assumes": true,
}

func parsePropsLabel(s string) (props []string, label string) {
	s = strings.TrimSuffix(strings.TrimPrefix(s, "["), "]")
	if s == "" {
		return nil, ""
	}
	if i := strings.Index(s, ":"); i >= 0 {
		label = strings.TrimSpace(s[i+1:])
		s = s[:i]
	}
	for _, p := range strings.Split(s, ",") {
		p = strings.TrimSpace(p)
		if p != "" {
			props = append(props, p)
		}
	}
	return
}

// loadSpecFile reads every //@ line of path into sf.
func (sf *SpecFile) load(path string, extern bool) error {
	f, err := os.Open(path)
	if err != nil {
		return err
	}
	defer f.Close()
	sc := bufio.NewScanner(f)
	sc.Buffer(make([]byte, 1<<20), 1<<20)
	type rawLine struct {
		text string
		line int
	}
	var lines []rawLine
	ln := 0
	for sc.Scan() {
		ln++
		t := strings.TrimSpace(sc.Text())
		if !strings.HasPrefix(t, "//@") {
			continue
		}
		t = strings.TrimSpace(strings.TrimPrefix(t, "//@"))
		if t == "" || strings.HasPrefix(t, "#") {
			continue
		}
		// strip trailing comment " // ..." only when preceded by two spaces
		if i := strings.Index(t, "  // "); i >= 0 {
			t = strings.TrimSpace(t[:i])
		}
		first := t
		if i := strings.IndexAny(t, " \t[("); i >= 0 {
			first = t[:i]
		}
		if !knownKeywords[first] && len(lines) > 0 {
			lines[len(lines)-1].text += " " + t
			continue
		}
		lines = append(lines, rawLine{t, ln})
	}
	var cur *FuncSpec
	counts := map[string]int{}
	fail := func(l rawLine, f string, a ...any) error {
		return fmt.Errorf("%s:%d: %s", path, l.line, fmt.Sprintf(f, a...))
	}
	for _, l := range lines {
		t := l.text
		first, rest := t, ""
		if i := strings.IndexAny(t, " \t"); i >= 0 {
			first, rest = t[:i], strings.TrimSpace(t[i+1:])
		}
		switch {
		case first == "func" || first == "iface":
			name := rest
			cur = &FuncSpec{Name: name, IsIface: first == "iface", Extern: extern, File: path, Line: l.line,
				Replay: map[string]string{}, Callee: map[string]string{}}
			if _, dup := sf.Funcs[name]; dup {
				return fail(l, "duplicate contract for %s", name)
			}
			sf.Funcs[name] = cur
			sf.FuncOrder = append(sf.FuncOrder, name)
			counts = map[string]int{}
		case first == "use":
			sf.Uses = append(sf.Uses, strings.Fields(rest)...)
		case first == "ghost" && (strings.HasPrefix(rest, "field ") || strings.HasPrefix(rest, "var ")):
			fs := strings.Fields(rest)
			if len(fs) >= 3 && fs[0] == "field" {
				sf.GhostFields[fs[1]] = &GhostField{Name: fs[1], Sort: strings.Join(fs[2:], " ")}
			} else if len(fs) >= 3 && fs[0] == "var" {
				sf.GhostVars[fs[1]] = strings.Join(fs[2:], " ")
				if extern {
					sf.GhostExtern[fs[1]] = true
				}
				sf.GhostOrder = append(sf.GhostOrder, fs[1])
			} else {
				return fail(l, "bad ghost declaration")
			}
		case first == "spec":
			// spec fun name(a T, b U) R = body      |  spec rec fun ...
			rec := false
			r := rest
			if strings.HasPrefix(r, "rec ") {
				rec = true
				r = strings.TrimSpace(r[4:])
			}
			r = strings.TrimSpace(strings.TrimPrefix(r, "fun"))
			op := strings.Index(r, "(")
			cp := matchParen(r, op)
			if op < 0 || cp < 0 {
				return fail(l, "bad spec fun")
			}
			sfn := &SpecFun{Name: strings.TrimSpace(r[:op]), Rec: rec, Text: r}
			for _, p := range splitTop(r[op+1:cp], ',') {
				p = strings.TrimSpace(p)
				if p == "" {
					continue
				}
				i := strings.IndexAny(p, " \t")
				if i < 0 {
					return fail(l, "spec fun parameter needs a type: %q", p)
				}
				sfn.Params = append(sfn.Params, QVar{p[:i], strings.TrimSpace(p[i+1:])})
			}
			tail := strings.TrimSpace(r[cp+1:])
			eq := strings.Index(tail, "=")
			if eq < 0 {
				// no body: an abstract (uninterpreted) function of its arguments; what is known about it
				// comes from axioms, each of which is listed with the assumptions
				if tail == "" {
					return fail(l, "spec fun needs a result type")
				}
				sfn.Result = tail
				sfn.Abstract = true
				sf.SpecFuns[sfn.Name] = sfn
				continue
			}
			sfn.Result = strings.TrimSpace(tail[:eq])
			body, err := parseExpr(tail[eq+1:])
			if err != nil {
				return fail(l, "%v", err)
			}
			sfn.Body = body
			sf.SpecFuns[sfn.Name] = sfn
		case first == "chaninv":
			// chaninv AsyncLogger.buf: <predicate over v>
			i := strings.Index(rest, ":")
			if i < 0 {
				return fail(l, "bad chaninv")
			}
			e, err := parseExpr(rest[i+1:])
			if err != nil {
				return fail(l, "%v", err)
			}
			sf.ChanInvs[strings.TrimSpace(rest[:i])] = &Clause{Kind: "chaninv", Text: strings.TrimSpace(rest[i+1:]), Expr: e, File: path, Line: l.line}
		case first == "axiom" || strings.HasPrefix(first, "axiom["):
			// axiom[when sym] expr : only assumed in functions whose contracts mention sym
			when := ""
			if strings.HasPrefix(first, "axiom[") {
				// the bracket may contain a space: re-split
				cl := strings.Index(t, "]")
				if cl < 0 {
					return fail(l, "bad axiom head")
				}
				when = strings.TrimSpace(strings.TrimPrefix(t[len("axiom["):cl], "when"))
				rest = strings.TrimSpace(t[cl+1:])
			}
			e, err := parseExpr(rest)
			if err != nil {
				return fail(l, "%v", err)
			}
			sf.Axioms = append(sf.Axioms, &Clause{Kind: "axiom", Text: rest, Expr: e, File: path, Line: l.line, Label: when})
		case strings.HasPrefix(first, "lemma"):
			// lemma[C09:name] expr                 proved from the prelude theories in the check of C09
			// lemma[C17:name when sym] expr        ... and then assumed (as a conditional axiom) in the functions
			//                                      whose contracts mention sym
			head := first
			if strings.HasPrefix(first, "lemma[") && !strings.Contains(first, "]") {
				cl := strings.Index(t, "]")
				if cl < 0 {
					return fail(l, "bad lemma head")
				}
				head = t[:cl+1]
				rest = strings.TrimSpace(t[cl+1:])
			}
			props, label := parsePropsLabel(strings.TrimPrefix(head, "lemma"))
			when := ""
			if i := strings.Index(label, " when "); i >= 0 {
				when = strings.TrimSpace(label[i+6:])
				label = strings.TrimSpace(label[:i])
			}
			e, err := parseExpr(rest)
			if err != nil {
				return fail(l, "%v", err)
			}
			sf.Lemmas = append(sf.Lemmas, &Lemma{Name: label, Props: props, Expr: e, Text: rest})
			if when != "" {
				sf.Axioms = append(sf.Axioms, &Clause{Kind: "axiom", Text: rest, Expr: e, File: path, Line: l.line, Label: when, Name: "lemma " + label, Props: props})
			}
		case strings.HasPrefix(first, "immutable"):
			props, _ := parsePropsLabel(strings.TrimPrefix(first, "immutable"))
			fs := strings.Fields(rest)
			if len(fs) < 1 || !strings.Contains(fs[0], ".") {
				return fail(l, "bad immutable declaration")
			}
			i := strings.LastIndex(fs[0], ".")
			im := &Immutable{Props: props, Struct: fs[0][:i], Field: fs[0][i+1:], File: path, Line: l.line}
			if len(fs) >= 3 && fs[1] == "via" {
				im.Iface = fs[2]
			}
			sf.Immutables = append(sf.Immutables, im)
		case first == "smtfun" || first == "extern":
			// informational only: signatures come from the prelude files
		default:
			if cur == nil {
				return fail(l, "clause outside a func block: %q", t)
			}
			if (first == "pure" || first == "pure_const" || first == "trusted" || first == "inline" || strings.HasPrefix(first, "nopanic") || strings.HasPrefix(first, "nooverflow") || strings.HasPrefix(first, "synchronous")) && rest != "" {
				return fail(l, "unexpected text after %s: %q", first, rest)
			}
			switch {
			case first == "pure":
				cur.Pure = true
			case first == "pure_const":
				cur.Pure = true
				cur.PureConst = true
			case first == "inline":
				cur.Inline = true
			case first == "trusted":
				cur.Trusted = true
			case first == "recovers":
				cur.Recovers = true
			case first == "may_panic":
				// run-time panics of this function are somebody else's business (a caller recovers):
				// its no-panic obligations belong to no property
				cur.HasNoPanic = true
				cur.NoPanic = []string{"-"}
			case first == "params":
				for _, p := range strings.Split(rest, ",") {
					cur.Params = append(cur.Params, strings.TrimSpace(p))
				}
			case first == "results":
				for _, p := range strings.Split(rest, ",") {
					cur.Results = append(cur.Results, strings.TrimSpace(p))
				}
			case first == "floor":
				n, err := strconv.Atoi(rest)
				if err != nil {
					return fail(l, "bad floor")
				}
				cur.Floor = n
			case first == "callee":
				// callee findLoggerForTag = self
				fs := strings.Split(rest, "=")
				if len(fs) != 2 {
					return fail(l, "bad callee clause")
				}
				cur.Callee[strings.TrimSpace(fs[0])] = strings.TrimSpace(fs[1])
			case strings.HasPrefix(first, "synchronous"):
				props, _ := parsePropsLabel(strings.TrimPrefix(first, "synchronous"))
				cur.Synchronous = append(cur.Synchronous, props...)
				cur.IsSync = true
			case strings.HasPrefix(first, "nooverflow"):
				props, _ := parsePropsLabel(strings.TrimPrefix(first, "nooverflow"))
				cur.NoOverflow = append(cur.NoOverflow, props...)
			case strings.HasPrefix(first, "nopanic"):
				props, _ := parsePropsLabel(strings.TrimPrefix(first, "nopanic"))
				cur.NoPanic = append(cur.NoPanic, props...)
				cur.HasNoPanic = true
			case first == "ghost":
				// ghost assignment executed when the function returns:  ghost stk[enc] = stk_key(old(stk[enc]))
				eq := strings.Index(rest, " = ")
				if eq < 0 {
					return fail(l, "bad ghost assignment")
				}
				e, err := parseExpr(rest[eq+3:])
				if err != nil {
					return fail(l, "%v", err)
				}
				lhs, err := parseExpr(rest[:eq])
				if err != nil {
					return fail(l, "%v", err)
				}
				cur.Clauses = append(cur.Clauses, &Clause{Kind: "ghostset", Name: strings.TrimSpace(rest[:eq]), Text: rest, Expr: e, LHS: lhs, File: path, Line: l.line})
			case first == "let":
				eq := strings.Index(rest, "=")
				if eq < 0 {
					return fail(l, "bad let")
				}
				e, err := parseExpr(rest[eq+1:])
				if err != nil {
					return fail(l, "%v", err)
				}
				cur.Clauses = append(cur.Clauses, &Clause{Kind: "let", Name: strings.TrimSpace(rest[:eq]), Text: rest, Expr: e, File: path, Line: l.line})
			case first == "replay":
				for _, kv := range splitTop(rest, ';') {
					kv = strings.TrimSpace(kv)
					if kv == "" {
						continue
					}
					eq := strings.Index(kv, "=")
					if eq < 0 {
						return fail(l, "bad replay item %q", kv)
					}
					k := strings.TrimSpace(kv[:eq])
					cur.Replay[k] = strings.TrimSpace(kv[eq+1:])
					cur.ReplayKeys = append(cur.ReplayKeys, k)
				}
			case first == "rangefunc":
				// rangefunc K invariant[Cxx:label] expr   (invariant of the K-th range-over-func loop; $k items done)
				fs := strings.SplitN(rest, " ", 2)
				n, err := strconv.Atoi(fs[0])
				if err != nil || len(fs) < 2 {
					return fail(l, "bad rangefunc clause")
				}
				m := clauseHead.FindStringSubmatch(strings.TrimSpace(fs[1]))
				if m == nil || m[1] != "invariant" {
					return fail(l, "bad rangefunc clause %q", fs[1])
				}
				e, err := parseExpr(m[3])
				if err != nil {
					return fail(l, "%v", err)
				}
				props, label := parsePropsLabel(m[2])
				key := fmt.Sprintf("rangefunc%d.invariant", n)
				counts[key]++
				cur.Clauses = append(cur.Clauses, &Clause{Kind: "rfinvariant", Loop: n, Props: props, Label: label, Text: m[3], Expr: e, File: path, Line: l.line, Index: counts[key]})
			case first == "loop":
				fs := strings.SplitN(rest, " ", 2)
				n, err := strconv.Atoi(fs[0])
				if err != nil || len(fs) < 2 {
					return fail(l, "bad loop clause")
				}
				m := clauseHead.FindStringSubmatch(strings.TrimSpace(fs[1]))
				if m == nil {
					return fail(l, "bad loop clause %q", fs[1])
				}
				var e Expr
				if m[1] != "writes_own_objects" && m[1] != "writes_loop_objects" {
					e, err = parseExpr(m[3])
					if err != nil {
						return fail(l, "%v", err)
					}
				}
				props, label := parsePropsLabel(m[2])
				key := fmt.Sprintf("loop%d.%s", n, m[1])
				counts[key]++
				cur.Clauses = append(cur.Clauses, &Clause{Kind: m[1], Loop: n, Props: props, Label: label, Text: m[3], Expr: e, File: path, Line: l.line, Index: counts[key]})
			default:
				m := clauseHead.FindStringSubmatch(t)
				if m == nil {
					return fail(l, "unknown clause %q", t)
				}
				props, label := parsePropsLabel(m[2])
				c := &Clause{Kind: m[1], Props: props, Label: label, Text: m[3], File: path, Line: l.line}
				counts[m[1]]++
				c.Index = counts[m[1]]
				if m[1] != "modifies" {
					e, err := parseExpr(m[3])
					if err != nil {
						return fail(l, "%v", err)
					}
					c.Expr = e
				}
				if c.Kind == "assumes" {
					c.Kind = "ensures"
					c.Assumed = true
					counts["ensures"]++
					c.Index = counts["ensures"]
					cur.Clauses = append(cur.Clauses, c)
					continue
				}
				if c.Kind == "always" {
					// a postcondition that speaks only of the result: proved like any other, and -- being
					// independent of the state -- true of every value the function ever returns
					post := *c
					post.Kind = "ensures"
					counts["ensures"]++
					post.Index = counts["ensures"]
					if post.Label == "" {
						post.Label = fmt.Sprintf("always%d", c.Index)
					}
					cur.Clauses = append(cur.Clauses, &post, c)
					continue
				}
				if c.Kind == "maintains" {
					// an invariant of the function: assumed on entry, proved on exit
					pre := *c
					pre.Kind = "requires"
					counts["requires"]++
					pre.Index = counts["requires"]
					post := *c
					post.Kind = "ensures"
					counts["ensures"]++
					post.Index = counts["ensures"]
					if post.Label == "" {
						post.Label = fmt.Sprintf("maintains%d", c.Index)
					}
					cur.Clauses = append(cur.Clauses, &pre, &post)
				} else {
					cur.Clauses = append(cur.Clauses, c)
				}
			}
		}
	}
	for _, fs := range sf.Funcs {
		seen := map[string]bool{}
		fs.Props = nil
		for _, c := range fs.Clauses {
			for _, p := range c.Props {
				if !seen[p] {
					seen[p] = true
					fs.Props = append(fs.Props, p)
				}
			}
		}
		for _, p := range fs.Synchronous {
			if !seen[p] {
				seen[p] = true
				fs.Props = append(fs.Props, p)
			}
		}
		for _, p := range fs.NoOverflow {
			if !seen[p] {
				seen[p] = true
				fs.Props = append(fs.Props, p)
			}
		}
		for _, p := range fs.NoPanic {
			if !seen[p] {
				seen[p] = true
				fs.Props = append(fs.Props, p)
			}
		}
	}
	return nil
}

func matchParen(s string, open int) int {
	if open < 0 {
		return -1
	}
	d := 0
	for i := open; i < len(s); i++ {
		switch s[i] {
		case '(':
			d++
		case ')':
			d--
			if d == 0 {
				return i
			}
		}
	}
	return -1
}

func splitTop(s string, sep byte) []string {
	var out []string
	d := 0
	inStr := false
	last := 0
	for i := 0; i < len(s); i++ {
		c := s[i]
		if inStr {
			if c == '\\' {
				i++
			} else if c == '"' {
				inStr = false
			}
			continue
		}
		switch c {
		case '"':
			inStr = true
		case '(', '[', '{':
			d++
		case ')', ']', '}':
			d--
		default:
			if c == sep && d == 0 {
				out = append(out, s[last:i])
				last = i + 1
			}
		}
	}
	out = append(out, s[last:])
	return out
}

func (fs *FuncSpec) clauses(kind string) []*Clause {
	var out []*Clause
	for _, c := range fs.Clauses {
		if c.Kind == kind {
			out = append(out, c)
		}
	}
	return out
}

func (c *Clause) label() string {
	if c.Label != "" {
		return c.Label
	}
	return strconv.Itoa(c.Index)
}
