package main

import (
	"encoding/json"
	"fmt"
	"go/ast"
	"go/types"
	"os"
	"regexp"
	"sort"
	"strings"

	"golang.org/x/tools/go/ssa"
)

// runRenames lists, for every function under contract, the local variables (not parameters, not results)
// that the text of its contract mentions, with the byte offsets of every identifier that denotes them:
// the input of the renamed-local sweep (selftest/rename_sweep.py), which renames one local at a time and
// expects every check to stay silent.
var goIdentRe = regexp.MustCompile(`[A-Za-z_][A-Za-z0-9_]*`)

func runRenames(repo, verif string) int {
	P, err := loadProgram(repo, verif)
	if err != nil {
		fmt.Fprintln(os.Stderr, err)
		return 1
	}
	type item struct {
		Func    string   `json:"func"`
		Local   string   `json:"local"`
		File    string   `json:"file"`
		Offsets []int    `json:"offsets"`
		Props   []string `json:"props"`
		Type    string   `json:"type"`
		Ord     int      `json:"ord"`    // position among the function's variables of that type, in declaration order
		Param   int      `json:"param"`  // index among the function's parameters (receiver first), -1 for other variables
		Result  int      `json:"result"` // index among the function's named results, -1 for other variables
	}
	var out []item
	for _, name := range P.spec.FuncOrder {
		sp := P.spec.Funcs[name]
		fn := P.funcs[strings.TrimSuffix(name, "@B")]
		if sp == nil || fn == nil || sp.Extern || sp.IsIface || strings.HasSuffix(name, "@B") {
			continue
		}
		text := ""
		for _, c := range sp.Clauses {
			text += " " + c.Text + " " + c.Name
		}
		mentioned := map[string]bool{}
		for _, id := range goIdentRe.FindAllString(text, -1) {
			mentioned[id] = true
		}
		// the syntax of the function (a closure's locals live in the enclosing declaration's file)
		syn := fn.Syntax()
		if syn == nil {
			continue
		}
		var info *types.Info
		for _, p := range []*struct {
			i *types.Info
			f []*ast.File
		}{{P.logPkg.TypesInfo, P.logPkg.Syntax}, {P.exprPkg.TypesInfo, P.exprPkg.Syntax}} {
			for _, f := range p.f {
				if f.Pos() <= syn.Pos() && syn.End() <= f.End() {
					info = p.i
				}
			}
		}
		if info == nil {
			continue
		}
		params := map[types.Object]bool{}
		if sig := fn.Signature; sig != nil {
			for i := 0; i < sig.Params().Len(); i++ {
				params[sig.Params().At(i)] = true
			}
			for i := 0; i < sig.Results().Len(); i++ {
				params[sig.Results().At(i)] = true
			}
			if sig.Recv() != nil {
				params[sig.Recv()] = true
			}
		}
		// locals declared inside this function's syntax, or captured by it (declared in an enclosing function)
		objs := map[types.Object][]int{}
		ast.Inspect(syn, func(n ast.Node) bool {
			id, ok := n.(*ast.Ident)
			if !ok {
				return true
			}
			var o types.Object
			if d := info.Defs[id]; d != nil {
				o = d
			} else if u := info.Uses[id]; u != nil {
				o = u
			}
			v, isVar := o.(*types.Var)
			if !isVar || v.IsField() || v.Pkg() == nil || v.Parent() == v.Pkg().Scope() || !mentioned[v.Name()] {
				return true
			}
			objs[o] = nil
			return true
		})
		// every variable the function's syntax declares or uses, by type, in declaration order
		byType := map[string][]types.Object{}
		seenObj := map[types.Object]bool{}
		ast.Inspect(syn, func(n ast.Node) bool {
			id, ok := n.(*ast.Ident)
			if !ok {
				return true
			}
			var o types.Object
			if d := info.Defs[id]; d != nil {
				o = d
			} else if u := info.Uses[id]; u != nil {
				o = u
			}
			v, isVar := o.(*types.Var)
			if !isVar || v.IsField() || v.Pkg() == nil || v.Parent() == v.Pkg().Scope() || seenObj[o] {
				return true
			}
			seenObj[o] = true
			ts := types.TypeString(v.Type(), nil)
			byType[ts] = append(byType[ts], o)
			return true
		})
		for _, l := range byType {
			sort.Slice(l, func(i, j int) bool { return l[i].Pos() < l[j].Pos() })
		}
		ordOf := func(o types.Object) int {
			for i, x := range byType[types.TypeString(o.Type(), nil)] {
				if x == o {
					return i
				}
			}
			return -1
		}
		for o := range objs {
			// every identifier of the package that denotes o (a captured variable is also used outside syn)
			var offs []int
			file := ""
			for _, f := range append(append([]*ast.File{}, P.logPkg.Syntax...), P.exprPkg.Syntax...) {
				ast.Inspect(f, func(n ast.Node) bool {
					id, ok := n.(*ast.Ident)
					if !ok {
						return true
					}
					if info.Defs[id] == o || info.Uses[id] == o {
						pos := P.fset.Position(id.Pos())
						file = pos.Filename
						offs = append(offs, pos.Offset)
					}
					return true
				})
			}
			sort.Ints(offs)
			out = append(out, item{Func: name, Local: o.Name(), File: file, Offsets: offs, Props: sp.Props, Type: types.TypeString(o.Type(), nil), Ord: ordOf(o), Param: paramIndex(fn, o), Result: resultIndex(fn, o)})
		}
	}
	sort.Slice(out, func(i, j int) bool {
		if out[i].Func != out[j].Func {
			return out[i].Func < out[j].Func
		}
		return out[i].Local < out[j].Local
	})
	b, _ := json.MarshalIndent(out, "", " ")
	fmt.Println(string(b))
	return 0
}

func paramIndex(fn *ssa.Function, o types.Object) int {
	for i, p := range fn.Params {
		if p.Object() == o {
			return i
		}
	}
	return -1
}

func resultIndex(fn *ssa.Function, o types.Object) int {
	if fn.Signature == nil {
		return -1
	}
	for i := 0; i < fn.Signature.Results().Len(); i++ {
		if fn.Signature.Results().At(i) == o {
			return i
		}
	}
	return -1
}
