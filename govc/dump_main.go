//go:build ignore

package main

import (
	"fmt"
	"os"

	"golang.org/x/tools/go/packages"
	"golang.org/x/tools/go/ssa"
	"golang.org/x/tools/go/ssa/ssautil"
)

func main() {
	cfg := &packages.Config{Mode: packages.LoadAllSyntax, Dir: "/repo", BuildFlags: []string{"-tags=verif"}}
	pkgs, err := packages.Load(cfg, "github.com/go-spring/log", "github.com/go-spring/log/expr")
	if err != nil {
		panic(err)
	}
	prog, spkgs := ssautil.AllPackages(pkgs, ssa.InstantiateGenerics|ssa.GlobalDebug)
	prog.Build()
	for _, p := range spkgs {
		if p == nil {
			continue
		}
		for _, name := range os.Args[1:] {
			if m := p.Members[name]; m != nil {
				if f, ok := m.(*ssa.Function); ok {
					f.WriteTo(os.Stdout)
					for _, af := range f.AnonFuncs {
						af.WriteTo(os.Stdout)
					}
				}
			}
			if t, ok := p.Members[name].(*ssa.Type); ok {
				ms := prog.MethodSets.MethodSet(t.Type())
				_ = ms
			}
		}
	}
	_ = fmt.Sprint
}
