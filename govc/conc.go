package main

import (
	"go/token"

	"golang.org/x/tools/go/ssa"
)

// Channels, goroutines and map/string iteration.  Until a protocol is
// declared for them they are over-approximated (everything havocked).

func (vc *VC) chanMade(st *State, x *ssa.MakeChan, ref string) {}

func (vc *VC) goStmt(st *State, x *ssa.Go, guard string) {
	vc.unsupported(st, x, guard)
}

func (vc *VC) send(st *State, x *ssa.Send, guard string) {
	vc.unsupported(st, x, guard)
}

func (vc *VC) recv(st *State, x *ssa.UnOp, guard string) {
	vc.unsupported(st, x, guard)
}

func (vc *VC) selectStmt(st *State, x *ssa.Select, guard string) {
	vc.unsupported(st, x, guard)
}

func (vc *VC) closeChan(st *State, ch Term, guard string, pos token.Pos, label string) {
	vc.havocAll(st, "close of a channel (over-approximated)")
}

func (vc *VC) rangeStart(st *State, x *ssa.Range, guard string) {
	vc.unsupported(st, x, guard)
}

func (vc *VC) rangeNext(st *State, x *ssa.Next, guard string) {
	vc.unsupported(st, x, guard)
}
