package main

import (
	"fmt"
	"go/token"
	"go/types"
	"strings"

	"golang.org/x/tools/go/ssa"
)

// Channels, goroutines and map/string iteration.  Until a protocol is
// declared for them they are over-approximated (everything havocked).

// Channels and goroutines are given a ghost protocol (sequential, per function):
//   enq     every successful send, in order:      (9, channel, item value, item type tag)
//   deq     every receive, in order:               (11, channel, item value, item type tag)
//   closed  which channels have been closed
//   blocked number of channel operations executed that may block
//   spawned every go statement:                    (10, function, 0, 0)
// A pointer sent on a channel is no longer owned by the sender (pooled[p] becomes true), a pointer
// received becomes owned (pooled[p] false).  Items of a channel with a `chaninv` satisfy it: checked
// at every send, assumed at every receive.  Interleavings are not explored.

const traceSort = "Trace"

func (vc *VC) chanMade(st *State, x *ssa.MakeChan, ref string) {
	vc.P.prelude.useFile(vc, "trace")
	vc.setAt(st, "G_closed", "(Array Int Bool)", ref, "false")
	vc.setAt(st, "G_chanCap", "(Array Int Int)", ref, vc.val(x.Size).S)
}

func (vc *VC) pointerTagTest(tag string) string {
	var cs []string
	for _, name := range vc.ss().tagOrder {
		if strings.HasPrefix(name, "*") {
			cs = append(cs, sx("=", tag, fmt.Sprint(vc.ss().typeTags[name])))
		}
	}
	return or(cs...)
}

// itemParts gives the (value, tag) a channel item is recorded with.
func itemParts(v Term) (string, string) {
	if v.Sort == "Iface" {
		return sx("if_val", v.S), sx("if_tag", v.S)
	}
	if v.Sort == "Int" {
		return v.S, "0"
	}
	return "0", "0"
}

func (vc *VC) chanItemInv(st *State, ch Term, v Term) (string, *Clause) {
	if ch.Prov == "" {
		return "", nil
	}
	c := vc.P.spec.ChanInvs[ch.Prov]
	if c == nil {
		return "", nil
	}
	env := &Env{vc: vc, st: st, old: vc.entry, vars: map[string]Term{"v": v}, pkg: vc.P.logPkg.Types}
	s, err := env.boolean(c.Expr)
	if err != nil {
		panic(execErr(fmt.Sprintf("chaninv %s: %v", ch.Prov, err)))
	}
	return s, c
}

// doSend records a completed send of v on ch (under condition cond).
func (vc *VC) doSend(st *State, ch, v Term, cond string) {
	vc.P.prelude.useFile(vc, "trace")
	val, tag := itemParts(v)
	enq := vc.get(st, "G_enq", traceSort)
	vc.set(st, "G_enq", traceSort, sx("ite", cond, sx("tsnoc", enq, "9", ch.S, val, tag, "str_empty"), enq))
	lg := vc.get(st, "G_chlog", traceSort)
	vc.set(st, "G_chlog", traceSort, sx("ite", cond, sx("tsnoc", lg, "9", ch.S, val, tag, "str_empty"), lg))
	if v.Sort == "Iface" {
		pooled := vc.get(st, "G_pooled", "(Array Int Bool)")
		vc.set(st, "G_pooled", "(Array Int Bool)", sx("ite", and(cond, vc.pointerTagTest(tag)), sx("store", pooled, val, "true"), pooled))
	}
}

func (vc *VC) doRecv(st *State, ch, x Term, cond string) {
	vc.P.prelude.useFile(vc, "trace")
	val, tag := itemParts(x)
	deq := vc.get(st, "G_deq", traceSort)
	vc.set(st, "G_deq", traceSort, sx("ite", cond, sx("tsnoc", deq, "11", ch.S, val, tag, "str_empty"), deq))
	lg := vc.get(st, "G_chlog", traceSort)
	vc.set(st, "G_chlog", traceSort, sx("ite", cond, sx("tsnoc", lg, "11", ch.S, val, tag, "str_empty"), lg))
	if x.Sort == "Iface" {
		pooled := vc.get(st, "G_pooled", "(Array Int Bool)")
		// while it travels through the channel a pointer belongs to nobody (its sender gave it up)
		vc.assume(implies(and(cond, vc.pointerTagTest(tag)), sx("select", pooled, val)))
		vc.set(st, "G_pooled", "(Array Int Bool)", sx("ite", and(cond, vc.pointerTagTest(tag)), sx("store", pooled, val, "false"), pooled))
	}
	if inv, _ := vc.chanItemInv(st, ch, x); inv != "" {
		vc.assume(implies(cond, inv))
	}
}

func (vc *VC) sendChecks(st *State, ch, v Term, guard string, pos token.Pos, label string) {
	closed := vc.get(st, "G_closed", "(Array Int Bool)")
	vc.oblige("nopanic.closed-chan", label, vc.nopanicProps(), guard, not(sx("select", closed, ch.S)), "the channel is not closed when it is sent on", pos)
	if inv, c := vc.chanItemInv(st, ch, v); inv != "" {
		vc.oblige("chan-item", label+": "+ch.Prov, c.Props, guard, inv, "item sent on "+ch.Prov+" satisfies the channel invariant: "+c.Text, pos)
	}
}

func (vc *VC) bumpBlocked(st *State) {
	b := vc.get(st, "G_blocked", "Int")
	vc.set(st, "G_blocked", "Int", sx("+", b, "1"))
}

func (vc *VC) goStmt(st *State, x *ssa.Go, guard string) {
	vc.P.prelude.useFile(vc, "trace")
	cc := x.Call
	callee := cc.StaticCallee()
	if callee == nil {
		vc.unsupported(st, x, guard)
		return
	}
	name := vc.P.specName(callee)
	if spec := vc.P.findSpec(callee); spec != nil {
		// the spawned function's precondition must hold at the go statement
		var args []Term
		for _, a := range cc.Args {
			args = append(args, vc.val(a))
		}
		env := &Env{vc: vc, st: st, old: st, vars: map[string]Term{}, pkg: vc.pkgOf(callee)}
		for i := range callee.Params {
			if i < len(args) {
				env.vars[vc.P.contractParamName(spec, callee, i)] = args[i]
			}
		}
		if mc, ok := cc.Value.(*ssa.MakeClosure); ok {
			for i, fv := range callee.FreeVars {
				if i < len(mc.Bindings) {
					env.vars["&"+fv.Name()] = vc.val(mc.Bindings[i])
				}
			}
		}
		for _, c := range spec.clauses("requires") {
			s, err := env.boolean(c.Expr)
			if err != nil {
				panic(execErr(fmt.Sprintf("requires of %s at go statement: %v", spec.Name, err)))
			}
			vc.oblige("go-pre", vc.srcLabel(x)+": "+spec.Name+"."+c.label(), unionProps(vc.nopanicProps(), c.Props), guard, s, "precondition of the spawned function "+spec.Name+": "+c.Text, x.Pos())
		}
		vc.usedSpecs[spec.Name] = true
	} else {
		vc.note("go statement spawning " + name + ", which has no contract")
	}
	sp := vc.get(st, "G_spawned", traceSort)
	vc.set(st, "G_spawned", traceSort, sx("tsnoc", sp, "10", vc.funcConst(name), "0", "0", "str_empty"))
}

func (vc *VC) send(st *State, x *ssa.Send, guard string) {
	ch := vc.val(x.Chan)
	v := vc.val(x.X)
	vc.sendChecks(st, ch, v, guard, x.Pos(), vc.srcLabel(x))
	vc.bumpBlocked(st)
	vc.doSend(st, ch, v, "true")
}

func (vc *VC) recv(st *State, x *ssa.UnOp, guard string) {
	ch := vc.val(x.X)
	et := types.Unalias(x.X.Type()).Underlying().(*types.Chan).Elem()
	vc.bumpBlocked(st)
	sortName := vc.ss().sortOf(et)
	xv := vc.fresh("recv", sortName)
	vc.assume(vc.ss().typeInv(et, xv, 0))
	xt := Term{S: xv, Sort: sortName, T: et}
	if x.CommaOk {
		ok := vc.fresh("recv_ok", "Bool")
		// !ok: the channel is closed and drained
		vc.assume(implies(not(ok), and(sx("select", vc.get(st, "G_closed", "(Array Int Bool)"), ch.S), sx("=", xv, vc.ss().zero(et)))))
		vc.doRecv(st, ch, xt, ok)
		vc.tuples[x] = []Term{xt, {S: ok, Sort: "Bool", T: types.Typ[types.Bool]}}
		return
	}
	vc.doRecv(st, ch, xt, "true")
	vc.vals[x] = xt
}

func (vc *VC) selectStmt(st *State, x *ssa.Select, guard string) {
	if x.Blocking || len(x.States) != 1 {
		vc.unsupported(st, x, guard)
		return
	}
	s := x.States[0]
	ch := vc.val(s.Chan)
	chosen := vc.fresh("sel", "Bool")
	idx := Term{S: sx("ite", chosen, "0", "(- 1)"), Sort: "Int", T: types.Typ[types.Int]}
	if s.Dir == types.SendOnly {
		v := vc.val(s.Send)
		vc.sendChecks(st, ch, v, guard, x.Pos(), vc.srcLabel(x))
		vc.doSend(st, ch, v, chosen)
		vc.tuples[x] = []Term{idx, {S: "false", Sort: "Bool", T: types.Typ[types.Bool]}}
		return
	}
	et := types.Unalias(s.Chan.Type()).Underlying().(*types.Chan).Elem()
	sortName := vc.ss().sortOf(et)
	xv := vc.fresh("recv", sortName)
	vc.assume(vc.ss().typeInv(et, xv, 0))
	xt := Term{S: xv, Sort: sortName, T: et}
	rok := vc.fresh("recv_ok", "Bool")
	// a receive that yields !ok means the channel is closed; an open channel yields ok
	vc.assume(implies(and(chosen, not(rok)), sx("select", vc.get(st, "G_closed", "(Array Int Bool)"), ch.S)))
	vc.doRecv(st, ch, xt, and(chosen, rok))
	vc.tuples[x] = []Term{idx, {S: rok, Sort: "Bool", T: types.Typ[types.Bool]}, xt}
}

func (vc *VC) closeChan(st *State, ch Term, guard string, pos token.Pos, label string) {
	closed := vc.get(st, "G_closed", "(Array Int Bool)")
	vc.oblige("nopanic.closed-chan", label, vc.nopanicProps(), guard, and(not(sx("=", ch.S, "0")), not(sx("select", closed, ch.S))), "close of a channel that is neither nil nor closed", pos)
	vc.setAt(st, "G_closed", "(Array Int Bool)", ch.S, "true")
	vc.P.prelude.useFile(vc, "trace")
	lg := vc.get(st, "G_chlog", traceSort)
	vc.set(st, "G_chlog", traceSort, sx("tsnoc", lg, "12", ch.S, "0", "0", "str_empty"))
}

// Range over a map: "each key exactly once, in an unspecified order".  A ghost set of visited
// keys belongs to the Range instruction; Next yields an unvisited key of the map and its value,
// or reports exhaustion exactly when every key has been visited.
func (vc *VC) rangeVar(x *ssa.Range) (string, string, *types.Map) {
	mt, ok := types.Unalias(x.X.Type()).Underlying().(*types.Map)
	if !ok {
		return "", "", nil
	}
	ks := vc.ss().sortOf(mt.Key())
	return "rng_" + x.Name(), "(Array " + ks + " Bool)", mt
}

// Range over a string: a ghost byte position belongs to the Range instruction; Next decodes the
// rune at that position as RFC 3629 prescribes (utf8_rune / utf8_size of the prelude: an invalid
// byte yields U+FFFD and advances by one) and yields (position, rune), or reports exhaustion when
// the position has reached the length.
func (vc *VC) strRangeVar(x *ssa.Range) (string, bool) {
	if b, ok := types.Unalias(x.X.Type()).Underlying().(*types.Basic); ok && b.Info()&types.IsString != 0 {
		return "rngpos_" + x.Name(), true
	}
	return "", false
}

func (vc *VC) rangeStart(st *State, x *ssa.Range, guard string) {
	if pv, ok := vc.strRangeVar(x); ok {
		vc.set(st, pv, "Int", "0")
		vc.vals[x] = vc.val(x.X)
		return
	}
	name, sortName, mt := vc.rangeVar(x)
	if mt == nil {
		vc.unsupported(st, x, guard)
		return
	}
	ks := vc.ss().sortOf(mt.Key())
	vc.set(st, name, sortName, fmt.Sprintf("((as const (Array %s Bool)) false)", ks))
	vc.vals[x] = vc.val(x.X)
}

func (vc *VC) rangeNext(st *State, x *ssa.Next, guard string) {
	rg, ok := x.Iter.(*ssa.Range)
	if !ok {
		vc.unsupported(st, x, guard)
		return
	}
	if pv, isStr := vc.strRangeVar(rg); isStr && x.IsString {
		s := vc.vals[rg]
		vc.P.prelude.use(vc, "utf8_size")
		pos := vc.get(st, pv, "Int")
		okc := vc.fresh("next_ok", "Bool")
		vc.assume(sx("=", okc, sx("<", pos, sx("slen", s.S))))
		k := vc.fresh("next_i", "Int")
		vc.assume(sx("=", k, pos))
		r := vc.fresh("next_r", "Int")
		vc.assume(implies(okc, sx("=", r, sx("utf8_rune", s.S, pos))))
		vc.assume(vc.ss().typeInv(types.Typ[types.Int32], r, 0))
		vc.set(st, pv, "Int", sx("ite", okc, sx("+", pos, sx("utf8_size", s.S, pos)), pos))
		vc.tuples[x] = []Term{{S: okc, Sort: "Bool", T: types.Typ[types.Bool]}, {S: k, Sort: "Int", T: types.Typ[types.Int]}, {S: r, Sort: "Int", T: types.Typ[types.Int32]}}
		return
	}
	if x.IsString {
		vc.unsupported(st, x, guard)
		return
	}
	name, sortName, mt := vc.rangeVar(rg)
	if mt == nil {
		vc.unsupported(st, x, guard)
		return
	}
	m := vc.vals[rg]
	hn, hs, vn, vs := vc.mapVars(mt)
	ks := vc.ss().sortOf(mt.Key())
	vsort := vc.ss().sortOf(mt.Elem())
	vis := vc.get(st, name, sortName)
	has := sx("select", vc.get(st, hn, hs), m.S)
	okc := vc.fresh("next_ok", "Bool")
	k := vc.fresh("next_k", ks)
	v := vc.fresh("next_v", vsort)
	vc.assume(vc.ss().typeInv(mt.Key(), k, 0))
	vc.assume(vc.ss().typeInv(mt.Elem(), v, 0))
	vc.assume(implies(okc, and(not(sx("=", m.S, "0")), sx("select", has, k), not(sx("select", vis, k)),
		sx("=", v, sx("select", sx("select", vc.get(st, vn, vs), m.S), k)))))
	vc.assume(implies(not(okc), fmt.Sprintf("(forall ((q %s)) (! (=> (and (not (= %s 0)) (select %s q)) (select %s q)) :pattern ((select %s q))))", ks, m.S, has, vis, has)))
	vc.set(st, name, sortName, sx("ite", okc, sx("store", vis, k, "true"), vis))
	vc.tuples[x] = []Term{{S: okc, Sort: "Bool", T: types.Typ[types.Bool]}, {S: k, Sort: ks, T: mt.Key()}, {S: v, Sort: vsort, T: mt.Elem()}}
}

// unionProps: a precondition labelled with properties of its own is an obligation of those properties as
// well, wherever the call (or go statement) stands.
func unionProps(a, b []string) []string {
	if len(b) == 0 {
		return a
	}
	out := append([]string(nil), a...)
	for _, p := range b {
		if !hasProp(out, p) {
			out = append(out, p)
		}
	}
	return out
}
