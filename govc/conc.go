package main

import (
	"fmt"
	"go/token"
	"go/types"

	"golang.org/x/tools/go/ssa"
)

// Channels, goroutines and map/string iteration.  Until a protocol is
// declared for them they are over-approximated (everything havocked).

func (vc *VC) chanMade(st *State, x *ssa.MakeChan, ref string) {}

func (vc *VC) goStmt(st *State, x *ssa.Go, guard string) {
	vc.unsupported(st, x, guard)
}

func (vc *VC) send(st *State, x *ssa.Send, guard string) {
	vc.unsupported(st, x, guard)
}

func (vc *VC) recv(st *State, x *ssa.UnOp, guard string) {
	vc.unsupported(st, x, guard)
}

func (vc *VC) selectStmt(st *State, x *ssa.Select, guard string) {
	vc.unsupported(st, x, guard)
}

func (vc *VC) closeChan(st *State, ch Term, guard string, pos token.Pos, label string) {
	vc.havocAll(st, "close of a channel (over-approximated)")
}

// Range over a map: "each key exactly once, in an unspecified order".  A ghost set of visited
// keys belongs to the Range instruction; Next yields an unvisited key of the map and its value,
// or reports exhaustion exactly when every key has been visited.
func (vc *VC) rangeVar(x *ssa.Range) (string, string, *types.Map) {
	mt, ok := types.Unalias(x.X.Type()).Underlying().(*types.Map)
	if !ok {
		return "", "", nil
	}
	ks := vc.ss().sortOf(mt.Key())
	return "rng_" + x.Name(), "(Array " + ks + " Bool)", mt
}

func (vc *VC) rangeStart(st *State, x *ssa.Range, guard string) {
	name, sortName, mt := vc.rangeVar(x)
	if mt == nil {
		vc.unsupported(st, x, guard)
		return
	}
	ks := vc.ss().sortOf(mt.Key())
	vc.set(st, name, sortName, fmt.Sprintf("((as const (Array %s Bool)) false)", ks))
	vc.vals[x] = vc.val(x.X)
}

func (vc *VC) rangeNext(st *State, x *ssa.Next, guard string) {
	rg, ok := x.Iter.(*ssa.Range)
	if !ok || x.IsString {
		vc.unsupported(st, x, guard)
		return
	}
	name, sortName, mt := vc.rangeVar(rg)
	if mt == nil {
		vc.unsupported(st, x, guard)
		return
	}
	m := vc.vals[rg]
	hn, hs, vn, vs := vc.mapVars(mt)
	ks := vc.ss().sortOf(mt.Key())
	vsort := vc.ss().sortOf(mt.Elem())
	vis := vc.get(st, name, sortName)
	has := sx("select", vc.get(st, hn, hs), m.S)
	okc := vc.fresh("next_ok", "Bool")
	k := vc.fresh("next_k", ks)
	v := vc.fresh("next_v", vsort)
	vc.assume(vc.ss().typeInv(mt.Key(), k, 0))
	vc.assume(vc.ss().typeInv(mt.Elem(), v, 0))
	vc.assume(implies(okc, and(not(sx("=", m.S, "0")), sx("select", has, k), not(sx("select", vis, k)),
		sx("=", v, sx("select", sx("select", vc.get(st, vn, vs), m.S), k)))))
	vc.assume(implies(not(okc), fmt.Sprintf("(forall ((q %s)) (! (=> (and (not (= %s 0)) (select %s q)) (select %s q)) :pattern ((select %s q))))", ks, m.S, has, vis, has)))
	vc.set(st, name, sortName, sx("ite", okc, sx("store", vis, k, "true"), vis))
	vc.tuples[x] = []Term{{S: okc, Sort: "Bool", T: types.Typ[types.Bool]}, {S: k, Sort: ks, T: mt.Key()}, {S: v, Sort: vsort, T: mt.Elem()}}
}
