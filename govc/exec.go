package main

import (
	"fmt"
	"go/constant"
	"go/token"
	"go/types"
	"math"
	"math/big"
	"os"
	"regexp"
	"sort"
	"strings"

	"golang.org/x/tools/go/ssa"
)

type loopInfo struct {
	header  *ssa.BasicBlock
	blocks  map[*ssa.BasicBlock]bool
	ordinal int
	pos     token.Pos
}

type execErr string

func (vc *VC) failf(f string, a ...any) { panic(execErr(fmt.Sprintf(f, a...))) }

// newVC prepares the builder for fn under contract spec.
func newVC(P *Program, fn *ssa.Function, spec *FuncSpec) *VC {
	vc := &VC{P: P, fn: fn, spec: spec, name: spec.Name,
		declared: map[string]bool{}, vals: map[ssa.Value]Term{}, tuples: map[ssa.Value][]Term{},
		stateSort: map[string]string{}, written: map[*ssa.BasicBlock]map[string]map[string]bool{},
		lets: map[string]Term{}, usedExterns: map[string]bool{}, usedSpecs: map[string]bool{},
		funDecls: map[string]bool{}, recInfo: map[string]*recInfo{}, allocBlock: map[string]*ssa.BasicBlock{}, globalPkg: map[string]string{}, ssaByName: map[string]ssa.Value{}, renamed: map[string]string{}}
	return vc
}

// reset clears everything produced by a run, keeping the discovered write sets.
func (vc *VC) reset() {
	w := vc.written
	ab := vc.allocBlock
	su := vc.symsUsed
	kv := vc.stateSort
	*vc = *newVC(vc.P, vc.fn, vc.spec)
	vc.knownVars = kv
	// the write sets of the discovery pass are frozen: the real pass records into a scratch map
	vc.writtenFrozen = w
	vc.symsFrozen = su
	if vc.symsFrozen == nil {
		vc.symsFrozen = map[string]bool{}
	}
	vc.written = map[*ssa.BasicBlock]map[string]map[string]bool{}
	// allocation sites found by the discovery pass (value names are stable across passes)
	for k, b := range ab {
		if strings.HasPrefix(k, "v_") || strings.HasPrefix(k, "al_") {
			vc.allocBlock[k] = b
		}
	}
}

// ---------------------------------------------------------------------------
// CFG analysis

func (vc *VC) findLoops() ([]*loopInfo, map[[2]int]bool) {
	fn := vc.fn
	back := map[[2]int]bool{}
	var loops []*loopInfo
	byHeader := map[*ssa.BasicBlock]*loopInfo{}
	for _, b := range fn.Blocks {
		for _, s := range b.Succs {
			if s.Dominates(b) {
				back[[2]int{b.Index, s.Index}] = true
				li := byHeader[s]
				if li == nil {
					li = &loopInfo{header: s, blocks: map[*ssa.BasicBlock]bool{s: true}}
					byHeader[s] = li
					loops = append(loops, li)
				}
				// natural loop: all blocks that reach b without passing through s
				var stack []*ssa.BasicBlock
				if !li.blocks[b] {
					li.blocks[b] = true
					stack = append(stack, b)
				}
				for len(stack) > 0 {
					x := stack[len(stack)-1]
					stack = stack[:len(stack)-1]
					for _, p := range x.Preds {
						if !li.blocks[p] {
							li.blocks[p] = true
							stack = append(stack, p)
						}
					}
				}
			}
		}
	}
	// ordinal by source position of the earliest instruction with a position in the header / loop
	for _, li := range loops {
		li.pos = loopPos(li)
	}
	sort.SliceStable(loops, func(i, j int) bool {
		if loops[i].pos != loops[j].pos {
			return loops[i].pos < loops[j].pos
		}
		return loops[i].header.Index < loops[j].header.Index
	})
	for i, li := range loops {
		li.ordinal = i + 1
	}
	vc.alignLoopOrdinals(loops)
	return loops, back
}

// rangeSubject: the package variable or named local a map-range loop iterates over ("" if none).
func rangeSubject(li *loopInfo) string {
	for _, in := range li.header.Instrs {
		nx, ok := in.(*ssa.Next)
		if !ok {
			continue
		}
		rg, ok := nx.Iter.(*ssa.Range)
		if !ok {
			continue
		}
		x := rg.X
		if u, ok := x.(*ssa.UnOp); ok && u.Op == token.MUL {
			if g, ok := u.X.(*ssa.Global); ok {
				return g.Name()
			}
			if a, ok := u.X.(*ssa.Alloc); ok && a.Comment != "" {
				return a.Comment
			}
		}
		if refs := x.Referrers(); refs != nil {
			for _, r := range *refs {
				if d, ok := r.(*ssa.DebugRef); ok && !d.IsAddr && d.Object() != nil {
					return d.Object().Name()
				}
			}
		}
	}
	return ""
}

// alignLoopOrdinals: loop clauses are keyed by the loop's ordinal in source order.  When two range loops
// over different named collections have been swapped, the clauses of the one talk about the collection the
// other iterates over; the two ordinals are exchanged then (a reordering of independent loops is not a change
// of behaviour, and checking each loop against the other's invariant proves nothing either way).
func (vc *VC) alignLoopOrdinals(loops []*loopInfo) {
	if vc.spec == nil || len(loops) < 2 {
		return
	}
	mentioned := map[int]map[string]bool{}
	for _, c := range vc.spec.Clauses {
		if c.Loop == 0 {
			continue
		}
		if mentioned[c.Loop] == nil {
			mentioned[c.Loop] = map[string]bool{}
		}
		for _, id := range goIdentRe.FindAllString(c.Text, -1) {
			mentioned[c.Loop][id] = true
		}
	}
	subj := map[*loopInfo]string{}
	count := map[string]int{}
	for _, li := range loops {
		if s := rangeSubject(li); s != "" {
			subj[li] = s
			count[s]++
		}
	}
	for i, a := range loops {
		for _, b := range loops[i+1:] {
			sa, sb := subj[a], subj[b]
			if sa == "" || sb == "" || sa == sb || count[sa] != 1 || count[sb] != 1 {
				continue
			}
			ma, mb := mentioned[a.ordinal], mentioned[b.ordinal]
			if len(ma) == 0 || len(mb) == 0 {
				continue
			}
			if !ma[sa] && ma[sb] && mb[sa] {
				a.ordinal, b.ordinal = b.ordinal, a.ordinal
				vc.note(fmt.Sprintf("the loops over %s and %s stand in the other order than the loop clauses of the contract: clauses matched by the collection they speak about", sa, sb))
			}
		}
	}
}

func loopPos(li *loopInfo) token.Pos {
	best := token.NoPos
	for b := range li.blocks {
		for _, in := range b.Instrs {
			if p := in.Pos(); p.IsValid() && (best == token.NoPos || p < best) {
				best = p
			}
			if d, ok := in.(*ssa.DebugRef); ok {
				if p := d.Expr.Pos(); p.IsValid() && (best == token.NoPos || p < best) {
					best = p
				}
			}
		}
	}
	return best
}

// topoOrder returns the blocks in a topological order of the CFG without back edges.
func (vc *VC) topoOrder(back map[[2]int]bool) []*ssa.BasicBlock {
	fn := vc.fn
	indeg := map[*ssa.BasicBlock]int{}
	reach := map[*ssa.BasicBlock]bool{}
	var dfs func(b *ssa.BasicBlock)
	dfs = func(b *ssa.BasicBlock) {
		if reach[b] {
			return
		}
		reach[b] = true
		for _, s := range b.Succs {
			dfs(s)
		}
	}
	dfs(fn.Blocks[0])
	for _, b := range fn.Blocks {
		if !reach[b] {
			continue
		}
		for _, s := range b.Succs {
			if !back[[2]int{b.Index, s.Index}] {
				indeg[s]++
			}
		}
	}
	var order []*ssa.BasicBlock
	ready := []*ssa.BasicBlock{fn.Blocks[0]}
	for len(ready) > 0 {
		sort.Slice(ready, func(i, j int) bool { return ready[i].Index < ready[j].Index })
		b := ready[0]
		ready = ready[1:]
		order = append(order, b)
		for _, s := range b.Succs {
			if back[[2]int{b.Index, s.Index}] {
				continue
			}
			indeg[s]--
			if indeg[s] == 0 {
				ready = append(ready, s)
			}
		}
	}
	return order
}

// ---------------------------------------------------------------------------
// Values

func (vc *VC) valName(v ssa.Value) string {
	n := v.Name()
	switch v.(type) {
	case *ssa.Parameter:
		return "p_" + n
	case *ssa.FreeVar:
		return "fv_" + n
	}
	if vc.inlineTag != "" {
		// a value of a helper executed in place at a call site
		return "v_" + vc.inlineTag + "_" + n
	}
	return "v_" + n
}

// val returns the term of an SSA value (operands).
func (vc *VC) val(v ssa.Value) Term {
	if t, ok := vc.vals[v]; ok {
		return t
	}
	switch x := v.(type) {
	case *ssa.Const:
		return vc.constVal(x)
	case *ssa.Global:
		o, _ := x.Object().(*types.Var)
		if o == nil {
			vc.failf("global %s without object", x.Name())
		}
		elem := x.Type().(*types.Pointer).Elem()
		if subObject(elem) {
			return Term{S: vc.globalRef(o), Sort: "Int", T: x.Type()}
		}
		return Term{S: vc.globalRef(o), Sort: "Int", T: x.Type(), Loc: &Loc{Kind: locGlobal, Global: vc.globalName(o), ElemT: elem}}
	case *ssa.Function:
		vc.alwaysFacts(x)
		return Term{S: vc.funcConst(vc.P.specName(x)), Sort: "Int", T: x.Type()}
	case *ssa.Builtin:
		return Term{S: "0", Sort: "Int", T: x.Type()}
	}
	vc.failf("use of undefined value %s (%T)", v.Name(), v)
	return Term{}
}

// alwaysFacts: a function used as a value whose contract has `always` clauses (postconditions over the
// result alone): every result it ever returns -- ret(f, n) for every n -- satisfies them.
func (vc *VC) alwaysFacts(f *ssa.Function) {
	sp := vc.P.findSpec(f)
	if sp == nil || vc.alwaysDone[f] || f.Signature.Results().Len() != 1 {
		return
	}
	cls := sp.clauses("always")
	if len(cls) == 0 {
		return
	}
	if vc.alwaysDone == nil {
		vc.alwaysDone = map[*ssa.Function]bool{}
	}
	vc.alwaysDone[f] = true
	rt := f.Signature.Results().At(0).Type()
	fc := vc.funcConst(vc.P.specName(f))
	rf := vc.retFun(rt)
	for _, c := range cls {
		scratch := vc.newState()
		scratch.epoch = -5000 - len(vc.alwaysDone)
		e := &Env{vc: vc, st: scratch, old: scratch, vars: map[string]Term{}, pkg: vc.pkgOf(f)}
		e.vars["result"] = Term{S: sx(rf, fc, "q_n"), Sort: vc.ss().sortOf(rt), T: rt}
		s, err := e.boolean(c.Expr)
		if err != nil {
			panic(execErr(fmt.Sprintf("always clause of %s: %v", sp.Name, err)))
		}
		if len(scratch.vals) != 0 {
			panic(execErr(fmt.Sprintf("always clause of %s reads the state: %s", sp.Name, c.Text)))
		}
		vc.preamble = append(vc.preamble, fmt.Sprintf("(assert (forall ((q_n Int)) (! %s :pattern ((%s %s q_n)))))", s, rf, fc))
	}
}

func (vc *VC) constVal(c *ssa.Const) Term {
	t := c.Type()
	sortName := vc.ss().sortOf(t)
	if c.Value == nil {
		return Term{S: vc.ss().zero(t), Sort: sortName, T: t}
	}
	switch c.Value.Kind() {
	case constant.Bool:
		if constant.BoolVal(c.Value) {
			return Term{S: "true", Sort: "Bool", T: t}
		}
		return Term{S: "false", Sort: "Bool", T: t}
	case constant.String:
		return Term{S: strLit(constant.StringVal(c.Value)), Sort: "Str", T: t}
	case constant.Int:
		if b, ok := t.Underlying().(*types.Basic); ok && b.Info()&types.IsFloat != 0 {
			f, _ := constant.Float64Val(c.Value)
			return Term{S: fmt.Sprint(math.Float64bits(f)), Sort: "Int", T: t}
		}
		return Term{S: bigLit(c.Value.ExactString()), Sort: "Int", T: t}
	case constant.Float:
		f, _ := constant.Float64Val(c.Value)
		if b, ok := t.Underlying().(*types.Basic); ok && b.Info()&types.IsInteger != 0 {
			return Term{S: bigLit(constant.ToInt(c.Value).ExactString()), Sort: "Int", T: t}
		}
		return Term{S: fmt.Sprint(math.Float64bits(f)), Sort: "Int", T: t}
	}
	vc.failf("unsupported constant %s", c)
	return Term{}
}

// define binds SSA value v to term t through a named constant.
func (vc *VC) define(v ssa.Value, t Term) {
	if t.Sort == "Tuple" {
		vc.failf("define of tuple")
	}
	n := vc.valName(v)
	if vc.declared[n] {
		n = fmt.Sprintf("%s_%d", n, len(vc.decls))
	}
	vc.declare(n, t.Sort)
	vc.ssaByName[n] = v
	vc.assume(sx("=", n, t.S))
	if b, ok := vc.allocBlock[t.S]; ok {
		vc.allocBlock[n] = b
	}
	vc.vals[v] = Term{S: n, Sort: t.Sort, T: v.Type(), Loc: t.Loc, Prov: t.Prov}
}

// bind binds v to a fresh unconstrained constant (plus its type invariant).
func (vc *VC) bindFresh(v ssa.Value, guard string) Term {
	sortName := vc.ss().sortOf(v.Type())
	n := vc.valName(v)
	if vc.declared[n] {
		n = fmt.Sprintf("%s_%d", n, len(vc.decls))
	}
	vc.declare(n, sortName)
	vc.assume(vc.ss().typeInv(v.Type(), n, 0))
	t := Term{S: n, Sort: sortName, T: v.Type()}
	vc.vals[v] = t
	return t
}

// ---------------------------------------------------------------------------
// Environments for contract clauses

func (vc *VC) pkgOf(fn *ssa.Function) *types.Package {
	for f := fn; f != nil; f = f.Parent() {
		if f.Pkg != nil {
			return f.Pkg.Pkg
		}
	}
	if fn.Object() != nil && fn.Object().Pkg() != nil {
		return fn.Object().Pkg()
	}
	return vc.P.logPkg.Types
}

// selfEnv builds the environment for the function's own clauses.
func (vc *VC) selfEnv(st *State, results []Term) *Env {
	e := &Env{vc: vc, st: st, old: vc.entry, vars: map[string]Term{}, pkg: vc.pkgOf(vc.fn)}
	for i, p := range vc.fn.Params {
		name := vc.P.contractParamName(vc.spec, vc.fn, i)
		if i < len(vc.spec.Params) && vc.spec.Params[i] != "" {
			name = vc.spec.Params[i]
		}
		e.vars[name] = vc.vals[p]
		if name != p.Name() {
			// (a renamed parameter: the body's clauses may use either name)
			if _, taken := e.vars[p.Name()]; !taken {
				e.vars[p.Name()] = vc.vals[p]
			}
		}
	}
	for i, fv := range vc.fn.FreeVars {
		e.vars["&"+fv.Name()] = vc.vals[fv]
		e.vars[fmt.Sprintf("&#%d", i)] = vc.vals[fv]
	}
	vc.bindResults(e, vc.fn.Signature, vc.spec, results)
	return e
}

func (vc *VC) bindResults(e *Env, sig *types.Signature, spec *FuncSpec, results []Term) {
	if results == nil {
		return
	}
	for i, r := range results {
		name := ""
		if i < len(spec.Results) {
			name = spec.Results[i]
		} else if sig.Results().At(i).Name() != "" && sig.Results().At(i).Name() != "_" {
			name = e.vc.P.contractResultName(spec, sig, i)
		}
		if name != "" {
			e.vars[name] = r
		}
		e.vars[fmt.Sprintf("result%d", i)] = r
		if len(results) == 1 {
			e.vars["result"] = r
		}
	}
}

// freeVarValue: identifiers naming a captured variable denote its current value.
func (e *Env) freeVar(name string) (Term, bool) {
	if t, ok := e.lookup("&" + name); ok {
		return e.vc.load(e.st, t), true
	}
	return Term{}, false
}

// ---------------------------------------------------------------------------
// Running

type runResult struct {
	err error
}

func (vc *VC) run() (err error) {
	defer func() {
		if r := recover(); r != nil {
			switch x := r.(type) {
			case execErr:
				err = fmt.Errorf("%s: %s", vc.name, string(x))
			case xlateErr:
				err = fmt.Errorf("%s: %s", vc.name, string(x))
			default:
				panic(r)
			}
		}
	}()
	fn := vc.fn
	if len(fn.Blocks) == 0 {
		return fmt.Errorf("%s has no body", vc.name)
	}
	loops, back := vc.findLoops()
	vc.loops = loops
	headerLoop := map[*ssa.BasicBlock]*loopInfo{}
	for _, li := range loops {
		headerLoop[li.header] = li
	}
	order := vc.topoOrder(back)
	// reachability in the cut CFG: facts recorded in a block that cannot reach the block of an
	// obligation are irrelevant to it (its reachability literal is false there) and are left out
	vc.reach = map[*ssa.BasicBlock]map[*ssa.BasicBlock]bool{}
	for i := len(order) - 1; i >= 0; i-- {
		b := order[i]
		m := map[*ssa.BasicBlock]bool{b: true}
		for _, s := range b.Succs {
			if back[[2]int{b.Index, s.Index}] {
				continue
			}
			for k := range vc.reach[s] {
				m[k] = true
			}
		}
		vc.reach[b] = m
	}
	if rb := fn.Recover; rb != nil {
		// the recover block is entered from any point after the handler is registered
		for _, m := range vc.reach {
			m[rb] = true
		}
		if vc.reach[rb] == nil {
			vc.reach[rb] = map[*ssa.BasicBlock]bool{}
		}
		vc.reach[rb][rb] = true
	}
	vc.privateCells = privateCells(fn)

	// entry state and parameters
	vc.entry = vc.newState()
	st0 := vc.entry.clone(vc)
	vc.curBlock = nil
	vc.protectedNow, vc.deferBlock, vc.panicFrom = false, nil, nil
	if _, ok := vc.P.spec.GhostVars["panicking"]; ok && !callsRecover(fn) {
		// only a deferred handler can be entered while the goroutine is panicking
		vc.assume(sx("=", vc.get(vc.entry, "G_panicking", "Iface"), "iface_nil"))
	}
	for _, p := range fn.Params {
		t := vc.bindFresh(p, "true")
		if t.Sort == "Int" {
			if _, isPtr := types.Unalias(p.Type()).Underlying().(*types.Pointer); isPtr {
				vc.assume(sx("is_old", t.S))
			}
		}
		if t.Sort == "Slice" {
			vc.assume(sx("is_old", sx("sl_ref", t.S)))
		}
	}
	for i, fv := range fn.FreeVars {
		t := vc.bindFresh(fv, "true")
		vc.assume(and(sx(">", t.S, "0"), sx("is_old", t.S)))
		// distinct captured variables are distinct objects
		for _, other := range fn.FreeVars[:i] {
			vc.assume(not(sx("=", t.S, vc.vals[other].S)))
		}
	}
	// global axioms and type invariants of the contract file
	envAx := &Env{vc: vc, st: vc.entry, old: vc.entry, vars: map[string]Term{}, pkg: vc.P.logPkg.Types}
	for _, ax := range vc.P.spec.Axioms {
		if ax.Label != "" && !vc.symsFrozen[ax.Label] {
			continue // conditional axiom: the contracts of this function never mention its subject
		}
		s, err := envAx.boolean(ax.Expr)
		if err != nil {
			return fmt.Errorf("axiom %s:%d: %v", ax.File, ax.Line, err)
		}
		vc.assume(s)
	}
	// lets and preconditions
	env0 := vc.selfEnv(vc.entry, nil)
	for _, c := range vc.spec.Clauses {
		switch c.Kind {
		case "let":
			t, err := env0.translate(c.Expr)
			if err != nil {
				return vc.clauseErr(c, err)
			}
			t = env0.value(t)
			n := "let_" + c.Name
			vc.declare(n, t.Sort)
			vc.assume(sx("=", n, t.S))
			vc.lets[c.Name] = Term{S: n, Sort: t.Sort, T: t.T}
		case "requires":
			s, err := env0.boolean(c.Expr)
			if err != nil {
				return vc.clauseErr(c, err)
			}
			vc.assume(s)
		}
	}
	// vacuity guard: the precondition must be satisfiable
	ob := vc.oblige("requires-sat", "", nil, "true", "false", "precondition, axioms and type invariants are satisfiable (must be sat)", fn.Pos())
	ob.Canary = true

	if pi := vc.spec.clauses("panics_iff"); len(pi) > 0 {
		var cs []string
		for _, c := range pi {
			s, err := env0.boolean(c.Expr)
			if err != nil {
				return vc.clauseErr(c, err)
			}
			cs = append(cs, s)
		}
		vc.panicsIff = or(cs...)
		vc.hasPanicsIff = true
	}

	// `synchronous`: the delivery happens in the calling goroutine before the function returns --
	// no goroutine, channel operation or deferred call in the body, and every callee in the
	// repository is synchronous too
	if vc.spec.IsSync {
		bad := 0
		for _, b := range fn.Blocks {
			for _, in := range b.Instrs {
				what := ""
				switch x := in.(type) {
				case *ssa.Go:
					what = "go statement"
				case *ssa.Defer:
					what = "deferred call"
				case *ssa.Send:
					what = "channel send"
				case *ssa.Select:
					what = "select"
				case *ssa.MakeChan:
					what = "channel creation"
				case *ssa.UnOp:
					if x.Op == token.ARROW {
						what = "channel receive"
					}
				case *ssa.Call:
					if callee := x.Common().StaticCallee(); callee != nil && !x.Common().IsInvoke() {
						if sp := vc.P.findSpec(callee); sp != nil && !sp.Extern && !sp.IsSync && !sp.Pure && !sp.Trusted {
							what = "call of " + sp.Name + ", whose contract is not marked synchronous"
						} else if sp == nil && callee.Pkg != nil && strings.HasPrefix(callee.Pkg.Pkg.Path(), logPath) {
							if why := vc.helperNotSynchronous(callee, 0); why != "" {
								what = "call of " + vc.P.specName(callee) + ", which has no contract and " + why
							}
						}
					}
				}
				if what != "" {
					bad++
					vc.curBlock = b
					o := vc.oblige("synchronous", vc.srcLabel(in), vc.spec.Synchronous, "true", "false", "no "+what+" on a synchronous delivery path", in.Pos())
					o.Static = "fails"
					vc.curBlock = nil
				}
			}
		}
		if bad == 0 {
			o := vc.oblige("synchronous", "", vc.spec.Synchronous, "true", "true", "the body contains no go statement, channel operation or deferred call, and calls only synchronous functions", fn.Pos())
			o.Static = "holds"
		}
	}

	blockR := map[*ssa.BasicBlock]string{}
	exitSt := map[*ssa.BasicBlock]*State{}
	edgeCond := func(p, s *ssa.BasicBlock) string {
		r := blockR[p]
		if ifi, ok := p.Instrs[len(p.Instrs)-1].(*ssa.If); ok {
			c := vc.val(ifi.Cond).S
			if p.Succs[0] == s && p.Succs[1] == s {
				return r
			}
			if p.Succs[0] == s {
				return and(r, c)
			}
			return and(r, not(c))
		}
		return r
	}

	for _, b := range order {
		vc.curBlock = b
		var st *State
		rname := fmt.Sprintf("R_%d", b.Index)
		vc.declare(rname, "Bool")
		if b.Index == 0 {
			st = st0
			vc.assume(rname)
		} else {
			var edges []parentEdge
			var conds []string
			for _, p := range b.Preds {
				if back[[2]int{p.Index, b.Index}] {
					continue
				}
				if _, ok := exitSt[p]; !ok {
					continue // unreachable predecessor
				}
				c := edgeCond(p, b)
				edges = append(edges, parentEdge{c, exitSt[p]})
				conds = append(conds, c)
			}
			if len(edges) == 0 {
				continue
			}
			vc.assume(sx("=", rname, or(conds...)))
			st = vc.merge(edges)
		}
		blockR[b] = rname
		vc.curGuard = rname
		vc.protectedNow = vc.deferBlock != nil && b != vc.deferBlock && vc.deferBlock.Dominates(b)

		li := headerLoop[b]
		if li != nil {
			// loop header: establish, havoc, assume
			st = vc.loopHeader(li, b, st, back, exitSt, edgeCond, rname)
		} else {
			// ordinary phis
			for _, in := range b.Instrs {
				phi, ok := in.(*ssa.Phi)
				if !ok {
					break
				}
				t := vc.bindFresh(phi, rname)
				for i, p := range b.Preds {
					if _, ok := exitSt[p]; !ok {
						continue
					}
					ev := vc.val(phi.Edges[i])
					vc.assume(implies(edgeCond(p, b), sx("=", t.S, ev.S)))
					if ev.Loc != nil && len(b.Preds) == 1 {
						t.Loc = ev.Loc
						vc.vals[phi] = t
					}
				}
			}
		}

		for _, in := range b.Instrs {
			if _, ok := in.(*ssa.Phi); ok {
				continue
			}
			vc.instr(st, in, rname)
		}
		exitSt[b] = st

		// back edges out of this block: invariant preserved
		for _, s := range b.Succs {
			if back[[2]int{b.Index, s.Index}] {
				vc.loopBackEdge(headerLoop[s], b, s, st, edgeCond(b, s))
			}
		}
	}
	vc.protectedNow = false
	if vc.panicFrom != nil {
		vc.panicPath()
	}
	vc.curBlock = nil
	return nil
}

// helperNotSynchronous: a helper without contract that is executed in place (see tryInline) is part of the
// synchronous path when it contains no go statement, channel operation or deferred call itself and calls
// only synchronous functions; otherwise the reason is returned.
func (vc *VC) helperNotSynchronous(f *ssa.Function, depth int) string {
	if depth >= maxInlineDepth || !vc.inlinable(f) {
		return "is not a loop-free helper that can be followed"
	}
	for _, b := range f.Blocks {
		for _, in := range b.Instrs {
			switch x := in.(type) {
			case *ssa.Go, *ssa.Defer, *ssa.Send, *ssa.Select, *ssa.MakeChan:
				return "contains a go statement, channel operation or deferred call"
			case *ssa.UnOp:
				if x.Op == token.ARROW {
					return "contains a channel receive"
				}
			case *ssa.Call:
				if callee := x.Common().StaticCallee(); callee != nil && !x.Common().IsInvoke() {
					if sp := vc.P.findSpec(callee); sp != nil && !sp.Extern && !sp.IsSync && !sp.Pure && !sp.Trusted {
						return "calls " + sp.Name + ", whose contract is not marked synchronous"
					} else if sp == nil && callee.Pkg != nil && strings.HasPrefix(callee.Pkg.Pkg.Path(), logPath) {
						if why := vc.helperNotSynchronous(callee, depth+1); why != "" {
							return "calls " + vc.P.specName(callee) + ", which " + why
						}
					}
				}
			}
		}
	}
	return ""
}

// deferHandler: the function a defer statement registers, when it is statically known.
func deferHandler(x *ssa.Defer) *ssa.Function {
	if c := x.Call.StaticCallee(); c != nil {
		return c
	}
	if mc, ok := x.Call.Value.(*ssa.MakeClosure); ok {
		if f, ok := mc.Fn.(*ssa.Function); ok {
			return f
		}
	}
	return nil
}

// panicPath: some instruction after the registration of the recovering handler panics, in an
// arbitrary state: the deferred calls run (the handler against its contract), the panic must be
// over, and the function's recover block returns the named results, which must satisfy the
// postconditions.
func (vc *VC) panicPath() {
	rb := vc.fn.Recover
	st := vc.panicFrom
	vc.curBlock = rb
	rname := "R_panic"
	vc.declare(rname, "Bool")
	vc.curGuard = rname
	// the handler was registered
	vc.assume(implies(rname, vc.deferGuard))
	// captured locals that are written only before the registration keep their value
	type kept struct{ addr, val Term }
	var keep []kept
	for _, a := range vc.panicStable {
		addr := vc.val(a)
		keep = append(keep, kept{addr, vc.load(st, addr)})
	}
	vc.havocAll(st, "")
	for _, k := range keep {
		vc.store(st, k.addr, k.val)
	}
	pv := vc.fresh("panicval", "Iface")
	vc.assume(not(sx("=", pv, "iface_nil")))
	vc.set(st, "G_panicking", "Iface", pv)
	for i := len(st.defers) - 1; i >= 0; i-- {
		d := st.defers[i]
		vc.callCommon(st, nil, d.call, d.args, rname, d.pos, true)
	}
	st.defers = nil
	vc.oblige("nopanic.recovered", "", vc.nopanicProps(), rname, sx("=", vc.get(st, "G_panicking", "Iface"), "iface_nil"),
		"the deferred handler ends every panic raised after its registration", vc.fn.Pos())
	for _, in := range rb.Instrs {
		vc.instr(st, in, rname)
	}
}

func (vc *VC) clauseErr(c *Clause, err error) error {
	return fmt.Errorf("%s:%d: %s clause of %s: %v", shortPath(c.File), c.Line, c.Kind, vc.name, err)
}

// loopEnv builds the environment for loop clauses: phis of the header are bound
// by their source names.
func (vc *VC) loopEnv(li *loopInfo, st *State, phiVal func(*ssa.Phi) Term) *Env {
	e := vc.selfEnv(st, nil)
	for _, in := range li.header.Instrs {
		phi, ok := in.(*ssa.Phi)
		if !ok {
			break
		}
		t := phiVal(phi)
		switch phi.Comment {
		case "rangeindex":
			e.vars["$k"] = Term{S: sx("+", t.S, "1"), Sort: "Int", T: types.Typ[types.Int]}
			// $n: the length the range statement iterates up to
			for _, hin := range li.header.Instrs {
				if bo, ok := hin.(*ssa.BinOp); ok && bo.Op == token.LSS {
					if inc, ok := bo.X.(*ssa.BinOp); ok && inc.X == ssa.Value(phi) {
						if nv, ok := vc.vals[bo.Y]; ok {
							e.vars["$n"] = nv
						}
					}
				}
			}
		case "rangeint.iter":
			e.vars["$k"] = t
		case "":
		default:
			e.vars[phi.Comment] = t
		}
		if phi.Comment == "rangeint.iter" {
			// the user-visible name of the iteration variable
			for _, r := range *phi.Referrers() {
				if d, ok := r.(*ssa.DebugRef); ok {
					if id, ok := d.Expr.(interface{ String() string }); ok {
						_ = id
					}
				}
			}
		}
	}
	// $kN: the number of completed iterations of the enclosing (or earlier) range loop N over a slice: in
	// the body of loop N the element being processed is the one at index $kN
	for _, lj := range vc.loops {
		if lj == li {
			continue
		}
		for _, in := range lj.header.Instrs {
			phi, ok := in.(*ssa.Phi)
			if !ok {
				break
			}
			if phi.Comment == "rangeindex" {
				if t, ok := vc.vals[phi]; ok {
					e.vars[fmt.Sprintf("$k%d", lj.ordinal)] = Term{S: sx("+", t.S, "1"), Sort: "Int", T: types.Typ[types.Int]}
				}
			}
		}
	}
	// $visited: the keys already produced by the map iteration this loop drives; $key, $val: the entry
	// the current iteration works on (available once the loop's Next has run: iteration clauses, and
	// the clauses of loops nested inside).  $visitedK, $keyK, $valK: the same for loop K.
	for _, lj := range vc.loops {
		for _, in := range lj.header.Instrs {
			nx, ok := in.(*ssa.Next)
			if !ok {
				continue
			}
			rg, ok := nx.Iter.(*ssa.Range)
			if !ok {
				continue
			}
			if pv, isStr := vc.strRangeVar(rg); isStr {
				// $pos: the byte position the string iteration of this loop has reached; $str: the string
				if _, started := vc.vals[rg]; started {
					for _, sf := range []string{fmt.Sprint(lj.ordinal), ""} {
						if sf == "" && lj != li {
							continue
						}
						e.vars["$pos"+sf] = Term{S: vc.get(st, pv, "Int"), Sort: "Int", T: types.Typ[types.Int]}
						e.vars["$str"+sf] = vc.vals[rg]
					}
				}
				continue
			}
			name, sortName, mt := vc.rangeVar(rg)
			if mt == nil {
				continue
			}
			if _, started := vc.vals[rg]; !started {
				continue
			}
			sfx := []string{fmt.Sprint(lj.ordinal)}
			if lj == li {
				sfx = append(sfx, "")
			}
			for _, sf := range sfx {
				e.vars["$visited"+sf] = Term{S: vc.get(st, name, sortName), Sort: sortName}
				e.vars["$map"+sf] = vc.vals[rg]
				if tup, ok := vc.tuples[nx]; ok && len(tup) == 3 {
					e.vars["$key"+sf] = tup[1]
					e.vars["$val"+sf] = tup[2]
				}
			}
		}
	}
	// other named locals visible at the header (defined outside the loop)
	vc.bindDebugNames(e, li)
	return e
}

// bindDebugNames makes source-level local variable names available in loop
// clauses when they map to exactly one SSA value.
func (vc *VC) bindDebugNames(e *Env, li *loopInfo) { vc.bindLocalsAt(e, li.header, false) }

// bindLocalsAt binds the named local variables visible at block `at` (at its start, or -- when
// inclusive -- at the instruction currently being executed in it): SSA values through their debug
// references, and variables living in cells (captured or address-taken) through the name of the cell.
func (vc *VC) bindLocalsAt(e *Env, at *ssa.BasicBlock, inclusive bool) {
	cands := map[string]map[ssa.Value]bool{}
	cells := map[string][]*ssa.Alloc{}
	for _, b := range vc.fn.Blocks {
		for _, in := range b.Instrs {
			if a, ok := in.(*ssa.Alloc); ok && a.Comment != "" {
				cells[a.Comment] = append(cells[a.Comment], a)
				continue
			}
			d, ok := in.(*ssa.DebugRef)
			if !ok || d.IsAddr {
				continue
			}
			obj := d.Object()
			if obj == nil {
				continue
			}
			if _, isVar := obj.(*types.Var); !isVar {
				continue
			}
			if cands[obj.Name()] == nil {
				cands[obj.Name()] = map[ssa.Value]bool{}
			}
			cands[obj.Name()][d.X] = true
		}
	}
	visible := func(in ssa.Instruction) bool {
		if in.Block() == nil {
			return false
		}
		if in.Block() == at {
			if !inclusive {
				return false
			}
			v, isVal := in.(ssa.Value)
			if !isVal {
				return false
			}
			_, done := vc.vals[v]
			return done
		}
		return in.Block().Dominates(at)
	}
	// a variable living in a cell is read through the cell: the SSA values its debug references name
	// are snapshots of earlier loads and stores
	cellBound := map[string]bool{}
	for name, as := range cells {
		if _, bound := e.vars[name]; bound {
			continue
		}
		if _, bound := e.vars["&"+name]; bound {
			cellBound[name] = true
			continue
		}
		var best *ssa.Alloc
		ambiguous := false
		for _, a := range as {
			if !visible(a) {
				continue
			}
			switch {
			case best == nil:
				best = a
			case a.Block() == best.Block():
				if instrIndex(a) > instrIndex(best) {
					best = a
				}
			case best.Block().Dominates(a.Block()):
				best = a
			case a.Block().Dominates(best.Block()):
			default:
				ambiguous = true
			}
		}
		if best == nil || ambiguous {
			continue
		}
		if t, ok := vc.vals[best]; ok {
			e.vars["&"+name] = t
			cellBound[name] = true
		}
	}
	for name, vs := range cands {
		if _, bound := e.vars[name]; bound || cellBound[name] {
			continue
		}
		if len(vs) != 1 {
			// several SSA values carry this name: the one current at the point is the definition that
			// dominates it and is dominated by every other such definition
			var best ssa.Instruction
			ambiguous := false
			for v := range vs {
				in, ok := v.(ssa.Instruction)
				if !ok || !visible(in) {
					continue
				}
				switch {
				case best == nil:
					best = in
				case in.Block() == best.Block():
					if instrIndex(in) > instrIndex(best) {
						best = in
					}
				case best.Block().Dominates(in.Block()):
					best = in
				case in.Block().Dominates(best.Block()):
				default:
					ambiguous = true
				}
			}
			if best == nil || ambiguous {
				continue
			}
			vs = map[ssa.Value]bool{best.(ssa.Value): true}
		}
		for v := range vs {
			if t, ok := vc.vals[v]; ok {
				e.vars[name] = t
			} else if c, ok := v.(*ssa.Const); ok {
				e.vars[name] = vc.constVal(c)
			}
		}
	}
}

// bindBodyNames binds source names of values defined inside loop li (one SSA value per name).
func (vc *VC) bindBodyNames(e *Env, li *loopInfo) {
	cands := map[string]map[ssa.Value]bool{}
	for b := range li.blocks {
		for _, in := range b.Instrs {
			d, ok := in.(*ssa.DebugRef)
			if !ok || d.IsAddr || d.Object() == nil {
				continue
			}
			if _, isVar := d.Object().(*types.Var); !isVar {
				continue
			}
			if cands[d.Object().Name()] == nil {
				cands[d.Object().Name()] = map[ssa.Value]bool{}
			}
			cands[d.Object().Name()][d.X] = true
		}
	}
	for name, vs := range cands {
		if _, bound := e.vars[name]; bound || len(vs) != 1 {
			continue
		}
		for v := range vs {
			if t, ok := vc.vals[v]; ok {
				e.vars[name] = t
			}
		}
	}
}

func (vc *VC) loopClauses(li *loopInfo, kind string) []*Clause {
	var out []*Clause
	for _, c := range vc.spec.Clauses {
		if c.Kind == kind && c.Loop == li.ordinal {
			out = append(out, c)
		}
	}
	return out
}

func (vc *VC) loopHeader(li *loopInfo, b *ssa.BasicBlock, st *State, back map[[2]int]bool,
	exitSt map[*ssa.BasicBlock]*State, edgeCond func(p, s *ssa.BasicBlock) string, rname string) *State {
	invs := vc.loopClauses(li, "invariant")
	// established on every entering edge
	for _, p := range b.Preds {
		if back[[2]int{p.Index, b.Index}] {
			continue
		}
		pst, ok := exitSt[p]
		if !ok {
			continue
		}
		idx := predIndex(b, p)
		env := vc.loopEnv(li, pst, func(phi *ssa.Phi) Term { return vc.val(phi.Edges[idx]) })
		for _, c := range invs {
			s, err := env.boolean(c.Expr)
			if err != nil {
				panic(execErr(vc.clauseErr(c, err).Error()))
			}
			vc.oblige(fmt.Sprintf("loop%d.established", li.ordinal), c.label(), c.Props, edgeCond(p, b), s, "invariant holds on entry: "+c.Text, li.pos)
		}
	}
	// havoc what the loop writes
	wr := map[string]map[string]bool{}
	wsrc := vc.written
	if vc.writtenFrozen != nil {
		wsrc = vc.writtenFrozen
	}
	for lb := range li.blocks {
		for k, idxs := range wsrc[lb] {
			if wr[k] == nil {
				wr[k] = map[string]bool{}
			}
			for ix := range idxs {
				wr[k][ix] = true
			}
		}
	}
	nst := st.clone(vc)
	if wr["*"] != nil || vc.discover {
		cb := vc.curBlock
		vc.curBlock = nil // the header's own havoc is not a write of the loop body
		vc.havocAll(nst, "")
		vc.curBlock = cb
	} else {
		for _, k := range sortedKeys(wr) {
			s, ok := vc.stateSort[k]
			if !ok {
				continue
			}
			precise := strings.HasPrefix(s, "(Array ")
			freshOnly := strings.HasPrefix(s, "(Array Int ")
			// index terms recorded by the discovery pass may read state variables at that pass's epochs
			// (G_encBuf@3): they are loop-invariant when the loop does not write that variable, and are
			// re-expressed over the state at this loop head
			if precise {
				nw := map[string]bool{}
				for ix := range wr[k] {
					nix, ok := vc.rebaseIndex(ix, wr, nst)
					if !ok {
						nix = ix
					}
					if cl, ok := vc.invariantCellLoad(li, nix, wr, nst); ok {
						nix = cl
						if vc.knownInvariant == nil {
							vc.knownInvariant = map[string]bool{}
						}
						vc.knownInvariant[cl] = true
					}
					nw[nix] = true
				}
				wr[k] = nw
			}
			if os.Getenv("GOVC_DEBUG") != "" {
				fmt.Fprintf(os.Stderr, "loop %d writes %s at %v (allocs %v)\n", li.ordinal, k, sortedKeys(wr[k]), len(vc.allocBlock))
			}
			for ix := range wr[k] {
				if ix == "" {
					precise, freshOnly = false, false
					continue
				}
				inv := vc.invariantIn(li, ix)
				if !inv {
					precise = false
				}
				if ab, ok := vc.allocBlock[ix]; !(ok && li.blocks[ab]) && !inv {
					freshOnly = false
				}
			}
			if precise {
				// only the loop-invariant locations the body writes are arbitrary
				parts := splitSortArgs(s)
				for _, ix := range sortedKeys(wr[k]) {
					f := vc.fresh("lhv", parts[1])
					vc.setAt(nst, k, s, ix, f)
					vc.heldAtIterationStart(li, k, parts[1], f)
				}
				continue
			}
			if freshOnly {
				// the body writes only objects it allocates itself (and loop-invariant locations):
				// everything that existed when the loop started keeps its value elsewhere
				old := vc.get(nst, k, s)
				nw := vc.havoc(nst, k, s)
				pre := fmt.Sprintf("pre_L%d", li.ordinal)
				vc.declarePre(li.ordinal)
				conds := []string{sx(pre, "x")}
				for _, ix := range sortedKeys(wr[k]) {
					if vc.invariantIn(li, ix) {
						conds = append(conds, not(sx("=", "x", ix)))
					}
				}
				vc.assume(fmt.Sprintf("(forall ((x Int)) (! (=> %s (= (select %s x) (select %s x))) :pattern ((select %s x))))", and(conds...), nw, old, nw))
				continue
			}
			ownObjs := len(vc.loopClauses(li, "writes_own_objects")) > 0
			loopObjs := len(vc.loopClauses(li, "writes_loop_objects")) > 0
			if strings.HasPrefix(s, "(Array Int ") && !hasEmpty(wr[k]) && (ownObjs || loopObjs) {
				// the body also writes objects reached through loop-carried variables: every such
				// write is obliged (at the write) to hit an object that did not exist when the
				// function was entered (writes_own_objects) / when the loop started (writes_loop_objects),
				// so objects that did keep their values
				old := vc.get(nst, k, s)
				nw := vc.havoc(nst, k, s)
				keep := "is_old"
				if loopObjs {
					vc.declarePre(li.ordinal)
					keep = fmt.Sprintf("pre_L%d", li.ordinal)
				}
				conds := []string{sx(keep, "x")}
				for _, ix := range sortedKeys(wr[k]) {
					if vc.invariantIn(li, ix) {
						conds = append(conds, not(sx("=", "x", ix)))
					}
				}
				vc.assume(fmt.Sprintf("(forall ((x Int)) (! (=> %s (= (select %s x) (select %s x))) :pattern ((select %s x))))", and(conds...), nw, old, nw))
				if vc.loopFrame == nil {
					vc.loopFrame = map[*loopInfo]map[string]bool{}
				}
				if vc.loopFrame[li] == nil {
					vc.loopFrame[li] = map[string]bool{}
				}
				vc.loopFrame[li][k] = true
				if vc.loopKeep == nil {
					vc.loopKeep = map[*loopInfo]string{}
				}
				vc.loopKeep[li] = keep
				continue
			}
			nw := vc.havoc(nst, k, s)
			if strings.HasPrefix(s, "(Array Int ") && (strings.HasPrefix(k, "F_") || strings.HasPrefix(k, "cell_") || strings.HasPrefix(k, "el_")) {
				parts := splitSortArgs(s)
				cur := vc.declareCur(li.ordinal)
				switch parts[1] {
				case "Int":
					vc.assume(fmt.Sprintf("(forall ((x Int)) (! (%s (select %s x)) :pattern ((select %s x))))", cur, nw, nw))
				case "Slice":
					vc.assume(fmt.Sprintf("(forall ((x Int)) (! (%s (sl_ref (select %s x))) :pattern ((select %s x))))", cur, nw, nw))
				case "Iface":
					vc.assume(fmt.Sprintf("(forall ((x Int)) (! (%s (if_val (select %s x))) :pattern ((select %s x))))", cur, nw, nw))
				}
			}
		}
	}
	// values computed before the loop refer to objects that existed when it started
	{
		pre := fmt.Sprintf("pre_L%d", li.ordinal)
		// ... and so did everything this function allocated before the loop
		for _, a := range vc.allocs {
			if ab, ok := vc.allocBlock[a]; ok && !li.blocks[ab] {
				vc.declarePre(li.ordinal)
				vc.assume(sx(pre, a))
			}
		}
		seen := map[ssa.Value]bool{}
		for lb := range li.blocks {
			for _, in := range lb.Instrs {
				for _, op := range in.Operands(nil) {
					if op == nil || *op == nil || seen[*op] {
						continue
					}
					seen[*op] = true
					if oi, ok := (*op).(ssa.Instruction); ok && li.blocks[oi.Block()] {
						continue
					}
					t, ok := vc.vals[*op]
					if !ok || t.Loc != nil {
						continue
					}
					switch t.Sort {
					case "Int":
						if _, isPtr := types.Unalias((*op).Type()).Underlying().(*types.Pointer); isPtr {
							vc.declarePre(li.ordinal)
							vc.assume(sx(pre, t.S))
						}
					case "Slice":
						vc.declarePre(li.ordinal)
						vc.assume(sx(pre, sx("sl_ref", t.S)))
					}
				}
			}
		}
	}
	// phis are arbitrary
	for _, in := range b.Instrs {
		phi, ok := in.(*ssa.Phi)
		if !ok {
			break
		}
		vc.bindFresh(phi, rname)
		// whatever a loop-carried variable refers to existed when this iteration started, so it
		// differs from everything the body allocates in this iteration
		if t, ok := vc.vals[phi]; ok && t.Loc == nil {
			cur := vc.declareCur(li.ordinal)
			switch t.Sort {
			case "Int":
				if _, isPtr := types.Unalias(phi.Type()).Underlying().(*types.Pointer); isPtr {
					vc.assume(sx(cur, t.S))
				}
			case "Slice":
				vc.assume(sx(cur, sx("sl_ref", t.S)))
			}
		}
	}
	env := vc.loopEnv(li, nst, func(phi *ssa.Phi) Term { return vc.vals[phi] })
	for _, c := range invs {
		s, err := env.boolean(c.Expr)
		if err != nil {
			panic(execErr(vc.clauseErr(c, err).Error()))
		}
		vc.assumeG(rname, s)
	}
	if vc.loopHead == nil {
		vc.loopHead = map[*loopInfo]*State{}
	}
	vc.loopHead[li] = nst.clone(vc)
	// remember the measure at the head
	for _, c := range vc.loopClauses(li, "decreases") {
		t, err := env.translate(c.Expr)
		if err != nil {
			panic(execErr(vc.clauseErr(c, err).Error()))
		}
		n := fmt.Sprintf("measure_%d_%d", li.ordinal, c.Index)
		vc.declare(n, "Int")
		vc.assume(sx("=", n, t.S))
	}
	return nst
}

var epochRefRe = regexp.MustCompile(`([A-Za-z_$][A-Za-z0-9_$.]*)@[0-9]+`)

// invariantCellLoad: the index term names a value loaded inside the loop from a local variable's cell
// that the loop never writes (the cell is an allocation of this function made outside the loop, and
// every cell of that kind the loop does write is a different allocation or an object of the caller):
// the load yields the same value in every iteration, namely the cell's content at the loop head.
func (vc *VC) invariantCellLoad(li *loopInfo, ix string, wr map[string]map[string]bool, st *State) (string, bool) {
	if m := cellLoadRe.FindStringSubmatch(ix); m != nil && vc.stableCellLoad(li, ix) {
		if cs, ok := vc.stateSort[m[1]]; ok {
			return sx("select", vc.get(st, m[1], cs), m[2]), true
		}
	}
	v, ok := vc.staticVals()[ix]
	if !ok {
		return "", false
	}
	u, ok := v.(*ssa.UnOp)
	if !ok || u.Op != token.MUL || !li.blocks[u.Block()] {
		return "", false
	}
	a, ok := u.X.(*ssa.Alloc)
	if !ok || li.blocks[a.Block()] {
		return "", false
	}
	at, ok := vc.vals[a]
	if !ok {
		return "", false
	}
	if _, isAlloc := vc.allocBlock[at.S]; !isAlloc {
		return "", false
	}
	elem := a.Type().(*types.Pointer).Elem()
	if subObject(elem) {
		return "", false
	}
	cn, cs := vc.cellVar(elem)
	for ix2 := range wr[cn] {
		if ix2 == "" || ix2 == at.S {
			return "", false
		}
		if _, isAlloc := vc.allocBlock[ix2]; !isAlloc && !loopInvariantTerm(ix2) {
			return "", false
		}
	}
	if wr["*"] != nil {
		return "", false
	}
	return sx("select", vc.get(st, cn, cs), at.S), true
}

// staticVals: SMT constant name -> SSA value, for every value-defining instruction of the function.
func (vc *VC) staticVals() map[string]ssa.Value {
	if vc.staticV == nil {
		vc.staticV = map[string]ssa.Value{}
		for _, b := range vc.fn.Blocks {
			for _, in := range b.Instrs {
				if v, ok := in.(ssa.Value); ok {
					vc.staticV[vc.valName(v)] = v
				}
			}
		}
	}
	return vc.staticV
}

// heldAtIterationStart: whatever reference the heap holds when an iteration starts refers to an object
// that existed at that moment, so it differs from everything the body allocates in this iteration.
func (vc *VC) heldAtIterationStart(li *loopInfo, name, sortName, v string) {
	if !(strings.HasPrefix(name, "F_") || strings.HasPrefix(name, "cell_") || strings.HasPrefix(name, "g_")) {
		return
	}
	cur := vc.declareCur(li.ordinal)
	switch sortName {
	case "Int":
		vc.assume(sx(cur, v))
	case "Slice":
		vc.assume(sx(cur, sx("sl_ref", v)))
	case "Iface":
		vc.assume(sx(cur, sx("if_val", v)))
	}
}

// rebaseIndex rewrites references to epoch versions of state variables (name@N) in an index term
// into the variables' terms at state st, provided the loop (write set wr) does not write them.
func (vc *VC) rebaseIndex(ix string, wr map[string]map[string]bool, st *State) (string, bool) {
	ok := true
	out := epochRefRe.ReplaceAllStringFunc(ix, func(m string) string {
		name := m[:strings.LastIndex(m, "@")]
		if wr[name] != nil || wr["*"] != nil {
			ok = false
			return m
		}
		sortName, known := vc.stateSort[name]
		if !known {
			ok = false
			return m
		}
		return vc.get(st, name, sortName)
	})
	return out, ok
}

func predIndex(b, p *ssa.BasicBlock) int {
	for i, x := range b.Preds {
		if x == p {
			return i
		}
	}
	return -1
}

func (vc *VC) loopBackEdge(li *loopInfo, from, header *ssa.BasicBlock, st *State, cond string) {
	idx := predIndex(header, from)
	env := vc.loopEnv(li, st, func(phi *ssa.Phi) Term { return vc.val(phi.Edges[idx]) })
	for _, c := range vc.loopClauses(li, "invariant") {
		s, err := env.boolean(c.Expr)
		if err != nil {
			panic(execErr(vc.clauseErr(c, err).Error()))
		}
		vc.oblige(fmt.Sprintf("loop%d.preserved", li.ordinal), c.label(), c.Props, cond, s, "invariant preserved by the body: "+c.Text, from.Instrs[len(from.Instrs)-1].Pos())
	}
	// per-iteration postconditions: iter(e) is e at the start of the iteration
	if hs := vc.loopHead[li]; hs != nil {
		ienv := vc.loopEnv(li, st, func(phi *ssa.Phi) Term { return vc.vals[phi] })
		ienv.states = map[string]*State{"$iter": hs}
		// values defined in the body are visible by their source names
		vc.bindBodyNames(ienv, li)
		for _, c := range vc.loopClauses(li, "iteration") {
			s, err := ienv.boolean(c.Expr)
			if err != nil {
				panic(execErr(vc.clauseErr(c, err).Error()))
			}
			vc.oblige(fmt.Sprintf("loop%d.iteration", li.ordinal), c.label(), c.Props, cond, s, "each iteration establishes: "+c.Text, from.Instrs[len(from.Instrs)-1].Pos())
		}
	}
	for _, c := range vc.loopClauses(li, "decreases") {
		t, err := env.translate(c.Expr)
		if err != nil {
			panic(execErr(vc.clauseErr(c, err).Error()))
		}
		n := fmt.Sprintf("measure_%d_%d", li.ordinal, c.Index)
		vc.oblige(fmt.Sprintf("loop%d.decreases", li.ordinal), c.label(), c.Props, cond, and(sx("<", t.S, n), sx(">=", n, "0")), "measure decreases and is bounded below: "+c.Text, li.pos)
	}
}

// ---------------------------------------------------------------------------
// Instructions

func (vc *VC) nopanicProps() []string {
	if vc.spec.HasNoPanic {
		return vc.spec.NoPanic
	}
	return vc.spec.Props
}

func (vc *VC) checkNonNil(t Term, what string, pos token.Pos, guard string) {
	if t.Loc != nil && t.Loc.Kind != locCell {
		// addresses of fields/elements/globals are never nil
		if t.Loc.Kind == locField || t.Loc.Kind == locElem || t.Loc.Kind == locGlobal {
			return
		}
	}
	vc.oblige("nopanic.nil-deref", what, vc.nopanicProps(), guard, not(sx("=", t.S, "0")), "pointer "+what+" is not nil", pos)
}

func exprText(vc *VC, in ssa.Instruction) string {
	// source text of the instruction's position line is not kept; use the SSA text
	s := in.String()
	if v, ok := in.(ssa.Value); ok {
		s = strings.TrimPrefix(s, v.Name()+" = ")
	}
	return s
}

func (vc *VC) srcLabel(in ssa.Instruction) string {
	pos := in.Pos()
	if !pos.IsValid() {
		return exprText(vc, in)
	}
	return vc.P.sourceSnippet(pos, in)
}

func (vc *VC) instr(st *State, in ssa.Instruction, guard string) {
	switch x := in.(type) {
	case *ssa.DebugRef:
		return
	case *ssa.Alloc:
		vc.alloc(st, x)
	case *ssa.BinOp:
		vc.define(x, vc.binop(x, guard))
	case *ssa.UnOp:
		vc.unop(st, x, guard)
	case *ssa.Call:
		vc.call(st, x, x.Common(), guard, x.Pos())
	case *ssa.ChangeInterface:
		vc.define(x, vc.val(x.X))
	case *ssa.ChangeType:
		t := vc.val(x.X)
		vc.define(x, Term{S: t.S, Sort: t.Sort, T: x.Type(), Loc: t.Loc})
	case *ssa.Convert:
		vc.convert(st, x)
	case *ssa.Extract:
		ts, ok := vc.tuples[x.Tuple]
		if !ok {
			vc.failf("extract from unknown tuple %s", x.Tuple.Name())
		}
		vc.define(x, ts[x.Index])
	case *ssa.Field:
		s := vc.val(x.X)
		sortName := vc.ss().sortOf(x.X.Type())
		vc.define(x, Term{S: sx(fmt.Sprintf("%s_%d", sortName, x.Field), s.S), Sort: vc.ss().sortOf(x.Type()), T: x.Type()})
	case *ssa.FieldAddr:
		base := vc.val(x.X)
		pt := types.Unalias(x.X.Type()).Underlying().(*types.Pointer)
		structT := pt.Elem()
		s, _ := isStruct(structT)
		ft := s.Field(x.Field).Type()
		if base.Loc != nil && (base.Loc.Kind == locElem || base.Loc.Kind == locGlobal || base.Loc.Kind == locField || (base.Loc.Kind == locCell && len(base.Loc.Sub) >= 0 && base.Loc.ElemT != nil && isStructT(base.Loc.ElemT))) {
			// address of a field inside a struct value stored as a whole
			l := *base.Loc
			l.Sub = append(append([]int{}, l.Sub...), x.Field)
			l.SubT = append(append([]types.Type{}, l.SubT...), structT)
			vc.vals[x] = Term{S: "0", Sort: "Int", T: x.Type(), Loc: &l}
			return
		}
		vc.checkNonNil(base, vc.srcLabel(x), x.Pos(), guard)
		if base.Loc == nil && valueStruct(structT) {
			// pointer to a value-like struct: the whole value lives in a cell
			vc.vals[x] = Term{S: "0", Sort: "Int", T: x.Type(), Loc: &Loc{Kind: locCell, Base: base, ElemT: structT, Sub: []int{x.Field}, SubT: []types.Type{structT}}}
			return
		}
		if subObject(ft) {
			vc.define(x, Term{S: sx(vc.subFun(structT, x.Field), base.S), Sort: "Int", T: x.Type()})
			return
		}
		n := fmt.Sprintf("(addr_%s_%d %s)", vc.ss().structKey(structT), x.Field, base.S)
		vc.declareFun(fmt.Sprintf("addr_%s_%d", vc.ss().structKey(structT), x.Field), []string{"Int"}, "Int")
		vc.vals[x] = Term{S: n, Sort: "Int", T: x.Type(), Loc: &Loc{Kind: locField, Base: base, Struct: structT, Field: x.Field, ElemT: ft}}
	case *ssa.Index:
		base := vc.val(x.X)
		idx := vc.val(x.Index)
		switch bt := types.Unalias(x.X.Type()).Underlying().(type) {
		case *types.Basic: // string
			vc.oblige("nopanic.index", vc.srcLabel(x), vc.nopanicProps(), guard, and(sx("<=", "0", idx.S), sx("<", idx.S, sx("slen", base.S))), "index in range", x.Pos())
			vc.define(x, Term{S: sx("select", sx("sarr", base.S), idx.S), Sort: "Int", T: x.Type()})
		case *types.Array:
			vc.oblige("nopanic.index", vc.srcLabel(x), vc.nopanicProps(), guard, and(sx("<=", "0", idx.S), sx("<", idx.S, fmt.Sprint(bt.Len()))), "index in range", x.Pos())
			vc.define(x, Term{S: sx("select", base.S, idx.S), Sort: vc.ss().sortOf(x.Type()), T: x.Type()})
		default:
			vc.failf("unsupported Index on %s", x.X.Type())
		}
	case *ssa.IndexAddr:
		vc.indexAddr(st, x, guard)
	case *ssa.Lookup:
		vc.lookup(st, x, guard)
	case *ssa.MakeInterface:
		v := vc.val(x.X)
		v.T = x.X.Type()
		t := vc.makeIface(v)
		t.T = x.Type()
		vc.define(x, t)
		// the type checker guarantees that the dynamic type implements the target interface
		if it, ok := types.Unalias(x.Type()).Underlying().(*types.Interface); ok && it.NumMethods() > 0 {
			f := "implements_" + mangle(shortTypeName(x.Type()))
			vc.declareFun(f, []string{"Int"}, "Bool")
			vc.assume(sx(f, sx("if_tag", vc.vals[x].S)))
		}
	case *ssa.TypeAssert:
		vc.typeAssert(st, x, guard)
	case *ssa.MakeClosure:
		r := vc.allocRef("closure_" + x.Name())
		fnv := x.Fn.(*ssa.Function)
		vc.declareFun("closure_fn", []string{"Int"}, "Int")
		vc.assume(sx("=", sx("closure_fn", r), vc.funcConst(vc.P.specName(fnv))))
		for i, b := range x.Bindings {
			bv := vc.val(b)
			f := fmt.Sprintf("closure_bind%d_%s", i, mangle(bv.Sort))
			vc.declareFun(f, []string{"Int"}, bv.Sort)
			vc.assume(sx("=", sx(f, r), bv.S))
		}
		vc.define(x, Term{S: r, Sort: "Int", T: x.Type()})
	case *ssa.MakeSlice:
		vc.makeSlice(st, x, guard)
	case *ssa.MakeMap:
		r := vc.allocRef("map_" + x.Name())
		m := types.Unalias(x.Type()).Underlying().(*types.Map)
		hn, hs, _, _ := vc.mapVars(m)
		ks := vc.ss().sortOf(m.Key())
		vc.setAt(st, hn, hs, r, fmt.Sprintf("((as const (Array %s Bool)) false)", ks))
		vc.define(x, Term{S: r, Sort: "Int", T: x.Type()})
	case *ssa.MakeChan:
		r := vc.allocRef("chan_" + x.Name())
		vc.define(x, Term{S: r, Sort: "Int", T: x.Type()})
		vc.chanMade(st, x, r)
	case *ssa.MapUpdate:
		vc.mapUpdate(st, x, guard)
	case *ssa.Slice:
		vc.sliceOp(st, x, guard)
	case *ssa.Store:
		addr := vc.val(x.Addr)
		if addr.Loc == nil {
			vc.checkNonNil(addr, vc.srcLabel(x), x.Pos(), guard)
		}
		vc.store(st, addr, vc.val(x.Val))
	case *ssa.If, *ssa.Jump:
		return
	case *ssa.Return:
		vc.ret(st, x, guard)
	case *ssa.Panic:
		vc.explicitPanic(st, x, guard)
	case *ssa.Defer:
		var args []Term
		for _, a := range x.Call.Args {
			args = append(args, vc.val(a))
		}
		if x.Call.IsInvoke() || x.Call.StaticCallee() == nil {
			args = append([]Term{vc.val(x.Call.Value)}, args...)
		}
		cc := x.Call
		st.defers = append(st.defers, deferred{call: &cc, args: args, pos: x.Pos()})
		// a handler that recovers: from here on a panic runs the deferred calls and the recover block
		if h := deferHandler(x); h != nil && vc.fn.Recover != nil {
			if sp := vc.P.findSpec(h); sp != nil && sp.Recovers && vc.panicFrom == nil {
				vc.protectedNow = true
				vc.deferBlock = vc.curBlock
				vc.panicFrom = st.clone(vc)
				vc.panicStable = stableCaptured(x)
				vc.deferGuard = guard
			}
		}
	case *ssa.RunDefers:
		for i := len(st.defers) - 1; i >= 0; i-- {
			d := st.defers[i]
			vc.callCommon(st, nil, d.call, d.args, guard, d.pos, true)
		}
		st.defers = nil
	case *ssa.Go:
		vc.goStmt(st, x, guard)
	case *ssa.Send:
		vc.send(st, x, guard)
	case *ssa.Select:
		vc.selectStmt(st, x, guard)
	case *ssa.Range:
		vc.rangeStart(st, x, guard)
	case *ssa.Next:
		vc.rangeNext(st, x, guard)
	default:
		vc.unsupported(st, in, guard)
	}
}

func isStructT(t types.Type) bool { _, ok := isStruct(t); return ok }

func (vc *VC) unsupported(st *State, in ssa.Instruction, guard string) {
	vc.havocAll(st, fmt.Sprintf("unsupported instruction %T at %s (over-approximated)", in, vc.P.fset.Position(in.Pos())))
	if v, ok := in.(ssa.Value); ok {
		if tup, isTup := v.Type().(*types.Tuple); isTup {
			var ts []Term
			for i := 0; i < tup.Len(); i++ {
				n := vc.fresh("u", vc.ss().sortOf(tup.At(i).Type()))
				ts = append(ts, Term{S: n, Sort: vc.ss().sortOf(tup.At(i).Type()), T: tup.At(i).Type()})
			}
			vc.tuples[v] = ts
			return
		}
		vc.bindFresh(v, guard)
	}
}

func (vc *VC) alloc(st *State, x *ssa.Alloc) {
	elem := x.Type().(*types.Pointer).Elem()
	r := vc.allocRef("new_" + x.Name())
	if at, ok := types.Unalias(elem).Underlying().(*types.Array); ok {
		// array objects live in the element store so they can be sliced
		name, sortName := vc.elemVar(at.Elem())
		zero := fmt.Sprintf("((as const (Array Int %s)) %s)", vc.ss().sortOf(at.Elem()), vc.ss().zero(at.Elem()))
		vc.setAt(st, name, sortName, r, zero)
		vc.define(x, Term{S: r, Sort: "Int", T: x.Type()})
		return
	}
	vc.zeroInit(st, r, elem)
	vc.zeroGhost(st, r, elem)
	t := Term{S: r, Sort: "Int", T: x.Type()}
	if !subObject(elem) {
		t.Loc = &Loc{Kind: locCell, Base: Term{S: r, Sort: "Int"}, ElemT: elem}
	}
	vc.define(x, t)
}

// zeroGhost: the ghost state of a freshly allocated object whose zero value has a documented meaning:
// "the zero value for Buffer is an empty buffer ready to use" (package bytes), owned by nobody.
func (vc *VC) zeroGhost(st *State, ref string, elem types.Type) {
	n, ok := types.Unalias(elem).(*types.Named)
	if !ok || n.Obj().Pkg() == nil || n.Obj().Pkg().Path() != "bytes" || n.Obj().Name() != "Buffer" {
		return
	}
	if gf, ok := vc.P.spec.GhostFields["out"]; ok {
		_, srt := (&Env{vc: vc, st: st, old: st, vars: map[string]Term{}, pkg: vc.P.logPkg.Types}).resolveType(gf.Sort)
		vc.P.prelude.use(vc, "bnil")
		vc.setAt(st, "G_out", "(Array Int "+srt+")", ref, "bnil")
	}
	if _, ok := vc.P.spec.GhostVars["pooled"]; ok {
		vc.setAt(st, "G_pooled", "(Array Int Bool)", ref, "false")
	}
}

func (vc *VC) binop(x *ssa.BinOp, guard string) Term {
	a := vc.val(x.X)
	b := vc.val(x.Y)
	t := x.Type()
	res := func(s string) Term { return Term{S: s, Sort: vc.ss().sortOf(t), T: t} }
	xt := x.X.Type()
	isFloat := false
	if bt, ok := types.Unalias(xt).Underlying().(*types.Basic); ok && bt.Info()&types.IsFloat != 0 {
		isFloat = true
	}
	switch x.Op {
	case token.EQL, token.NEQ:
		var s string
		if isFloat {
			vc.declareFun("float_eq", []string{"Int", "Int"}, "Bool")
			s = sx("float_eq", a.S, b.S)
		} else {
			s = sx("=", a.S, b.S)
		}
		if x.Op == token.NEQ {
			s = not(s)
		}
		return res(s)
	case token.LSS, token.LEQ, token.GTR, token.GEQ:
		op := map[token.Token]string{token.LSS: "<", token.LEQ: "<=", token.GTR: ">", token.GEQ: ">="}[x.Op]
		if a.Sort == "Str" {
			vc.declareFun("str_lt", []string{"Str", "Str"}, "Bool")
			switch x.Op {
			case token.LSS:
				return res(sx("str_lt", a.S, b.S))
			case token.GTR:
				return res(sx("str_lt", b.S, a.S))
			case token.LEQ:
				return res(not(sx("str_lt", b.S, a.S)))
			default:
				return res(not(sx("str_lt", a.S, b.S)))
			}
		}
		if isFloat {
			vc.declareFun("float_lt", []string{"Int", "Int"}, "Bool")
			vc.declareFun("float_le", []string{"Int", "Int"}, "Bool")
			switch x.Op {
			case token.LSS:
				return res(sx("float_lt", a.S, b.S))
			case token.GTR:
				return res(sx("float_lt", b.S, a.S))
			case token.LEQ:
				return res(sx("float_le", a.S, b.S))
			default:
				return res(sx("float_le", b.S, a.S))
			}
		}
		return res(sx(op, a.S, b.S))
	case token.ADD:
		if a.Sort == "Str" {
			return res(sx("str_cat", a.S, b.S))
		}
		if isFloat {
			return vc.uninterp2("float_add", a, b, t)
		}
		vc.overflowObl(x, t, sx("+", a.S, b.S), guard)
		return res(wrap(t, sx("+", a.S, b.S)))
	case token.SUB:
		if isFloat {
			return vc.uninterp2("float_sub", a, b, t)
		}
		vc.overflowObl(x, t, sx("-", a.S, b.S), guard)
		return res(wrap(t, sx("-", a.S, b.S)))
	case token.MUL:
		if isFloat {
			return vc.uninterp2("float_mul", a, b, t)
		}
		vc.overflowObl(x, t, sx("*", a.S, b.S), guard)
		return res(wrap(t, sx("*", a.S, b.S)))
	case token.QUO, token.REM:
		if isFloat {
			return vc.uninterp2("float_div", a, b, t)
		}
		vc.oblige("nopanic.div-zero", vc.srcLabel(x), vc.nopanicProps(), guard, not(sx("=", b.S, "0")), "divisor is not zero", x.Pos())
		// Go truncates toward zero
		q := sx("ite", sx(">=", a.S, "0"),
			sx("ite", sx(">", b.S, "0"), sx("div", a.S, b.S), sx("-", sx("div", a.S, sx("-", b.S)))),
			sx("ite", sx(">", b.S, "0"), sx("-", sx("div", sx("-", a.S), b.S)), sx("div", sx("-", a.S), sx("-", b.S))))
		if x.Op == token.QUO {
			return res(wrap(t, q))
		}
		return res(sx("-", a.S, sx("*", b.S, q)))
	case token.SHL:
		if c, ok := x.Y.(*ssa.Const); ok {
			k, _ := constant.Int64Val(constant.ToInt(c.Value))
			return res(wrap(t, sx("*", a.S, pow2big(k))))
		}
		return vc.uninterp2("bv_shl", a, b, t)
	case token.SHR:
		if c, ok := x.Y.(*ssa.Const); ok {
			k, _ := constant.Int64Val(constant.ToInt(c.Value))
			return res(sx("div", a.S, pow2big(k))) // floor division = arithmetic shift
		}
		return vc.uninterp2("bv_shr", a, b, t)
	case token.AND:
		if c, ok := x.Y.(*ssa.Const); ok {
			if k, exact := constant.Int64Val(constant.ToInt(c.Value)); exact && k >= 0 && (k+1)&k == 0 {
				return res(sx("mod", a.S, fmt.Sprint(k+1)))
			}
		}
		if a.Sort == "Bool" {
			return res(and(a.S, b.S))
		}
		return vc.uninterp2("bv_and", a, b, t)
	case token.OR:
		if a.Sort == "Bool" {
			return res(or(a.S, b.S))
		}
		return vc.uninterp2("bv_or", a, b, t)
	case token.XOR:
		return vc.uninterp2("bv_xor", a, b, t)
	case token.AND_NOT:
		return vc.uninterp2("bv_andnot", a, b, t)
	}
	vc.failf("unsupported binary operator %s", x.Op)
	return Term{}
}

// overflowObl: where the contract says `nooverflow`, integer arithmetic and narrowing conversions
// must not wrap: the mathematical result lies in the range of the static type.
func (vc *VC) overflowObl(in ssa.Instruction, t types.Type, math string, guard string) {
	if len(vc.spec.NoOverflow) == 0 {
		return
	}
	lo, hi, ok := intBounds(t)
	if !ok {
		return
	}
	if b, isb := types.Unalias(t).Underlying().(*types.Basic); isb && b.Info()&types.IsFloat != 0 {
		return
	}
	vc.oblige("nooverflow", vc.srcLabel(in), vc.spec.NoOverflow, guard, and(sx("<=", lo, math), sx("<=", math, hi)),
		"the mathematical result fits the type "+shortTypeName(t)+" (no silent wrap-around)", in.Pos())
}

func pow2big(k int64) string {
	return new(big.Int).Lsh(big.NewInt(1), uint(k)).String()
}

func (vc *VC) uninterp2(name string, a, b Term, t types.Type) Term {
	vc.declareFun(name, []string{a.Sort, b.Sort}, vc.ss().sortOf(t))
	n := vc.fresh("u", vc.ss().sortOf(t))
	vc.assume(sx("=", n, sx(name, a.S, b.S)))
	vc.assume(vc.ss().typeInv(t, n, 0))
	return Term{S: n, Sort: vc.ss().sortOf(t), T: t}
}

func (vc *VC) unop(st *State, x *ssa.UnOp, guard string) {
	a := vc.val(x.X)
	switch x.Op {
	case token.NOT:
		vc.define(x, Term{S: not(a.S), Sort: "Bool", T: x.Type()})
	case token.SUB:
		if bt, ok := types.Unalias(x.Type()).Underlying().(*types.Basic); ok && bt.Info()&types.IsFloat != 0 {
			vc.declareFun("float_neg", []string{"Int"}, "Int")
			vc.define(x, Term{S: sx("float_neg", a.S), Sort: "Int", T: x.Type()})
			return
		}
		vc.define(x, Term{S: wrap(x.Type(), sx("-", a.S)), Sort: "Int", T: x.Type()})
	case token.XOR:
		vc.define(x, Term{S: wrap(x.Type(), sx("-", sx("-", a.S), "1")), Sort: "Int", T: x.Type()})
	case token.MUL:
		if a.Loc == nil {
			vc.checkNonNil(a, vc.srcLabel(x), x.Pos(), guard)
		}
		a.T = x.X.Type()
		vc.define(x, vc.load(st, a))
		// values stored in the heap satisfy the invariant of their Go type
		vc.assume(vc.ss().typeInv(x.Type(), vc.vals[x].S, 0))
	case token.ARROW:
		vc.recv(st, x, guard)
	default:
		vc.failf("unsupported unary operator %s", x.Op)
	}
}

func (vc *VC) convert(st *State, x *ssa.Convert) {
	a := vc.val(x.X)
	from := types.Unalias(x.X.Type()).Underlying()
	to := types.Unalias(x.Type()).Underlying()
	fb, fok := from.(*types.Basic)
	tb, tok := to.(*types.Basic)
	switch {
	case fok && tok && fb.Info()&types.IsInteger != 0 && tb.Info()&types.IsInteger != 0:
		vc.overflowObl(x, x.Type(), a.S, vc.curGuard)
		vc.define(x, Term{S: wrap(x.Type(), a.S), Sort: "Int", T: x.Type()})
	case fok && tok && fb.Info()&types.IsFloat != 0 && tb.Info()&types.IsFloat != 0:
		if fb.Kind() == tb.Kind() {
			vc.define(x, Term{S: a.S, Sort: "Int", T: x.Type()})
			return
		}
		f := "f32_to_f64"
		if tb.Kind() == types.Float32 {
			f = "f64_to_f32"
		}
		vc.P.prelude.use(vc, f)
		n := vc.fresh("u", "Int")
		vc.assume(sx("=", n, sx(f, a.S)))
		vc.assume(vc.ss().typeInv(x.Type(), n, 0))
		vc.define(x, Term{S: n, Sort: "Int", T: x.Type()})
	case fok && tok && (fb.Info()&types.IsNumeric != 0) && (tb.Info()&types.IsNumeric != 0):
		f := "num_conv_" + fb.Name() + "_" + tb.Name()
		vc.declareFun(f, []string{"Int"}, "Int")
		n := vc.fresh("u", "Int")
		vc.assume(sx("=", n, sx(f, a.S)))
		vc.assume(vc.ss().typeInv(x.Type(), n, 0))
		vc.define(x, Term{S: n, Sort: "Int", T: x.Type()})
	case fok && tok && fb.Info()&types.IsString != 0 && tb.Info()&types.IsString != 0:
		vc.define(x, a)
	case tok && tb.Info()&types.IsString != 0 && a.Sort == "Slice":
		// string(bytes)
		name, sortName := vc.elemVar(types.Typ[types.Uint8])
		vc.P.prelude.use(vc, "str_of_slice")
		vc.define(x, Term{S: sx("str_of_slice", sx("select", vc.get(st, name, sortName), sx("sl_ref", a.S)), sx("sl_off", a.S), sx("sl_len", a.S)), Sort: "Str", T: x.Type()})
		// the same fact phrased over element reads of the slice, so that quantified facts about a[k] apply
		vc.assume(fmt.Sprintf("(forall ((i Int)) (! (=> (and (<= 0 i) (< i (sl_len %s))) (= (select (sarr %s) i) (select (select %s (sl_ref %s)) (sl_idx %s i)))) :pattern ((select (sarr %s) i))))",
			a.S, vc.vals[x].S, vc.get(st, name, sortName), a.S, a.S, vc.vals[x].S))
	case fok && fb.Info()&types.IsString != 0 && vc.ss().sortOf(x.Type()) == "Slice":
		// []byte(string): fresh backing holding the bytes
		r := vc.allocRef("bytes_" + x.Name())
		name, sortName := vc.elemVar(types.Typ[types.Uint8])
		vc.setAt(st, name, sortName, r, sx("sarr", a.S))
		vc.define(x, Term{S: sx("mk-slice", r, "0", sx("slen", a.S), sx("slen", a.S)), Sort: "Slice", T: x.Type()})
	case tok && tb.Info()&types.IsString != 0 && fok && fb.Info()&types.IsInteger != 0:
		vc.declareFun("str_of_rune", []string{"Int"}, "Str")
		vc.define(x, Term{S: sx("str_of_rune", a.S), Sort: "Str", T: x.Type()})
	case a.Sort == "Int" && vc.ss().sortOf(x.Type()) == "Int":
		// pointer <-> unsafe.Pointer <-> uintptr
		vc.define(x, Term{S: a.S, Sort: "Int", T: x.Type()})
	default:
		vc.failf("unsupported conversion %s -> %s", x.X.Type(), x.Type())
	}
}

func (vc *VC) indexAddr(st *State, x *ssa.IndexAddr, guard string) {
	base := vc.val(x.X)
	idx := vc.val(x.Index)
	switch bt := types.Unalias(x.X.Type()).Underlying().(type) {
	case *types.Slice:
		vc.oblige("nopanic.index", vc.srcLabel(x), vc.nopanicProps(), guard, and(sx("<=", "0", idx.S), sx("<", idx.S, sx("sl_len", base.S))), "index in range", x.Pos())
		vc.vals[x] = Term{S: "0", Sort: "Int", T: x.Type(), Loc: &Loc{Kind: locElem, Base: base, Idx: idx, ElemT: bt.Elem()}}
	case *types.Pointer:
		at, ok := types.Unalias(bt.Elem()).Underlying().(*types.Array)
		if !ok {
			vc.failf("IndexAddr on %s", x.X.Type())
		}
		vc.checkNonNil(base, vc.srcLabel(x), x.Pos(), guard)
		vc.oblige("nopanic.index", vc.srcLabel(x), vc.nopanicProps(), guard, and(sx("<=", "0", idx.S), sx("<", idx.S, fmt.Sprint(at.Len()))), "index in range", x.Pos())
		sl := Term{S: sx("mk-slice", base.S, "0", fmt.Sprint(at.Len()), fmt.Sprint(at.Len())), Sort: "Slice", T: types.NewSlice(at.Elem())}
		vc.vals[x] = Term{S: "0", Sort: "Int", T: x.Type(), Loc: &Loc{Kind: locElem, Base: sl, Idx: idx, ElemT: at.Elem()}}
	default:
		vc.failf("IndexAddr on %s", x.X.Type())
	}
}

func (vc *VC) lookup(st *State, x *ssa.Lookup, guard string) {
	base := vc.val(x.X)
	idx := vc.val(x.Index)
	switch bt := types.Unalias(x.X.Type()).Underlying().(type) {
	case *types.Basic:
		vc.oblige("nopanic.index", vc.srcLabel(x), vc.nopanicProps(), guard, and(sx("<=", "0", idx.S), sx("<", idx.S, sx("slen", base.S))), "index in range", x.Pos())
		vc.define(x, Term{S: sx("select", sx("sarr", base.S), idx.S), Sort: "Int", T: x.Type()})
	case *types.Map:
		hn, hs, vn, vs := vc.mapVars(bt)
		has := sx("select", sx("select", vc.get(st, hn, hs), base.S), idx.S)
		val := sx("ite", has, sx("select", sx("select", vc.get(st, vn, vs), base.S), idx.S), vc.ss().zero(bt.Elem()))
		// a nil map reads as empty
		has = and(not(sx("=", base.S, "0")), has)
		vt := Term{S: sx("ite", sx("=", base.S, "0"), vc.ss().zero(bt.Elem()), val), Sort: vc.ss().sortOf(bt.Elem()), T: bt.Elem()}
		if x.CommaOk {
			n1 := vc.fresh("lk", vt.Sort)
			vc.assume(sx("=", n1, vt.S))
			n2 := vc.fresh("ok", "Bool")
			vc.assume(sx("=", n2, has))
			vc.tuples[x] = []Term{{S: n1, Sort: vt.Sort, T: bt.Elem()}, {S: n2, Sort: "Bool", T: types.Typ[types.Bool]}}
			return
		}
		vc.define(x, vt)
	default:
		vc.failf("Lookup on %s", x.X.Type())
	}
}

func (vc *VC) mapUpdate(st *State, x *ssa.MapUpdate, guard string) {
	m := vc.val(x.Map)
	k := vc.val(x.Key)
	v := vc.val(x.Value)
	mt := types.Unalias(x.Map.Type()).Underlying().(*types.Map)
	vc.oblige("nopanic.nil-map", vc.srcLabel(x), vc.nopanicProps(), guard, not(sx("=", m.S, "0")), "map is not nil", x.Pos())
	hn, hs, vn, vs := vc.mapVars(mt)
	h := vc.get(st, hn, hs)
	vc.setAt(st, hn, hs, m.S, sx("store", sx("select", h, m.S), k.S, "true"))
	vv := vc.get(st, vn, vs)
	vc.setAt(st, vn, vs, m.S, sx("store", sx("select", vv, m.S), k.S, v.S))
}

func (vc *VC) typeAssert(st *State, x *ssa.TypeAssert, guard string) {
	v := vc.val(x.X)
	at := x.AssertedType
	var okc string
	var res Term
	if _, isIface := types.Unalias(at).Underlying().(*types.Interface); isIface {
		f := "implements_" + mangle(shortTypeName(at))
		vc.declareFun(f, []string{"Int"}, "Bool")
		okc = and(not(sx("=", v.S, "iface_nil")), sx(f, sx("if_tag", v.S)))
		if it := types.Unalias(at).Underlying().(*types.Interface); it.NumMethods() == 0 {
			okc = not(sx("=", v.S, "iface_nil"))
		}
		res = Term{S: v.S, Sort: "Iface", T: at}
	} else {
		tag := vc.ss().typeTag(at)
		okc = sx("=", sx("if_tag", v.S), fmt.Sprint(tag))
		res = vc.unboxIface(v.S, at)
		if _, isPtr := types.Unalias(at).Underlying().(*types.Pointer); isPtr {
			// modelling assumption (listed in the evidence): interfaces do not hold typed nil pointers
			vc.assume(implies(okc, sx(">", sx("if_val", v.S), "0")))
			vc.note("interface values are assumed not to hold typed nil pointers")
		}
	}
	if x.CommaOk {
		n1 := vc.fresh("ta", res.Sort)
		vc.assume(sx("=", n1, sx("ite", okc, res.S, vc.ss().zero(at))))
		n2 := vc.fresh("ok", "Bool")
		vc.assume(sx("=", n2, okc))
		vc.tuples[x] = []Term{{S: n1, Sort: res.Sort, T: at}, {S: n2, Sort: "Bool", T: types.Typ[types.Bool]}}
		return
	}
	vc.oblige("nopanic.type-assert", vc.srcLabel(x), vc.nopanicProps(), guard, okc, "type assertion succeeds", x.Pos())
	vc.define(x, res)
}

func (vc *VC) makeSlice(st *State, x *ssa.MakeSlice, guard string) {
	ln := vc.val(x.Len)
	cp := vc.val(x.Cap)
	et := types.Unalias(x.Type()).Underlying().(*types.Slice).Elem()
	vc.oblige("nopanic.makeslice", vc.srcLabel(x), vc.nopanicProps(), guard, and(sx("<=", "0", ln.S), sx("<=", ln.S, cp.S)), "make: 0 <= len <= cap", x.Pos())
	r := vc.allocRef("mk_" + x.Name())
	name, sortName := vc.elemVar(et)
	zero := fmt.Sprintf("((as const (Array Int %s)) %s)", vc.ss().sortOf(et), vc.ss().zero(et))
	vc.setAt(st, name, sortName, r, zero)
	vc.define(x, Term{S: sx("mk-slice", r, "0", ln.S, cp.S), Sort: "Slice", T: x.Type()})
}

func (vc *VC) sliceOp(st *State, x *ssa.Slice, guard string) {
	base := vc.val(x.X)
	lo := "0"
	if x.Low != nil {
		lo = vc.val(x.Low).S
	}
	switch bt := types.Unalias(x.X.Type()).Underlying().(type) {
	case *types.Basic: // string
		hi := sx("slen", base.S)
		if x.High != nil {
			hi = vc.val(x.High).S
		}
		vc.oblige("nopanic.slice-bounds", vc.srcLabel(x), vc.nopanicProps(), guard, and(sx("<=", "0", lo), sx("<=", lo, hi), sx("<=", hi, sx("slen", base.S))), "0 <= low <= high <= len", x.Pos())
		vc.define(x, Term{S: sx("str_sub", base.S, lo, hi), Sort: "Str", T: x.Type()})
	case *types.Slice:
		hi := sx("sl_len", base.S)
		if x.High != nil {
			hi = vc.val(x.High).S
		}
		mx := sx("sl_cap", base.S)
		if x.Max != nil {
			mx = vc.val(x.Max).S
		}
		vc.oblige("nopanic.slice-bounds", vc.srcLabel(x), vc.nopanicProps(), guard, and(sx("<=", "0", lo), sx("<=", lo, hi), sx("<=", hi, mx), sx("<=", mx, sx("sl_cap", base.S))), "0 <= low <= high <= max <= cap", x.Pos())
		vc.define(x, Term{S: sx("mk-slice", sx("sl_ref", base.S), sx("+", sx("sl_off", base.S), lo), sx("-", hi, lo), sx("-", mx, lo)), Sort: "Slice", T: x.Type()})
	case *types.Pointer:
		at, ok := types.Unalias(bt.Elem()).Underlying().(*types.Array)
		if !ok {
			vc.failf("slice of %s", x.X.Type())
		}
		n := fmt.Sprint(at.Len())
		hi := n
		if x.High != nil {
			hi = vc.val(x.High).S
		}
		vc.checkNonNil(base, vc.srcLabel(x), x.Pos(), guard)
		vc.oblige("nopanic.slice-bounds", vc.srcLabel(x), vc.nopanicProps(), guard, and(sx("<=", "0", lo), sx("<=", lo, hi), sx("<=", hi, n)), "0 <= low <= high <= len", x.Pos())
		vc.define(x, Term{S: sx("mk-slice", base.S, lo, sx("-", hi, lo), sx("-", n, lo)), Sort: "Slice", T: x.Type()})
	default:
		vc.failf("slice of %s", x.X.Type())
	}
}

// ---------------------------------------------------------------------------
// Exits

func (vc *VC) ret(st *State, x *ssa.Return, guard string) {
	var results []Term
	for _, r := range x.Results {
		results = append(results, vc.val(r))
	}
	vc.exit(st, results, guard, x.Pos())
}

func (vc *VC) exit(st *State, results []Term, guard string, pos token.Pos) {
	if !pos.IsValid() {
		pos = vc.fn.Pos()
	}
	env := vc.selfEnv(st, results)
	// named locals in scope at this return are visible to ghost assignments (snapshots of local state)
	genv := vc.selfEnv(st, results)
	if vc.curBlock != nil {
		vc.bindLocalsAt(genv, vc.curBlock, true)
	}
	// ghost assignments of the contract are executed at the return
	for _, c := range vc.spec.clauses("ghostset") {
		targets := vc.exprTargets(env, c.LHS, c.Name)
		if len(targets) != 1 {
			panic(execErr("ghost assignment target must be one ghost location: " + c.Name))
		}
		tg := targets[0]
		t, err := genv.translate(c.Expr)
		if err != nil {
			if strings.Contains(err.Error(), "unknown identifier") && tg.idx == "" {
				// the right-hand side mentions a local that is not in scope at this return (an early exit):
				// the ghost variable becomes arbitrary here
				vc.havoc(st, tg.name, tg.sort)
				continue
			}
			panic(execErr(vc.clauseErr(c, err).Error()))
		}
		t = genv.value(t)
		if tg.idx == "" {
			vc.set(st, tg.name, tg.sort, t.S)
		} else {
			vc.setAt(st, tg.name, tg.sort, tg.idx, t.S)
		}
	}
	if vc.hasPanicsIff {
		for _, c := range vc.spec.clauses("panics_iff") {
			vc.oblige("panics-iff.returns", c.label(), c.Props, guard, not(vc.panicsIff), "a normal return happens only when the panic condition is false: "+c.Text, pos)
		}
	}
	for _, c := range vc.spec.clauses("ensures") {
		s, err := env.boolean(c.Expr)
		if err != nil {
			panic(execErr(vc.clauseErr(c, err).Error()))
		}
		if c.Assumed {
			continue
		}
		vc.oblige("ensures", c.label(), c.Props, guard, s, c.Text, pos)
	}
	vc.frameObligations(st, guard, pos, "modifies", results)
	// vacuity canary: this exit must be reachable
	o := vc.oblige("canary.exit", fmt.Sprintf("b%d", vc.curBlock.Index), nil, guard, "false", "exit is reachable under the assumptions (must be sat)", pos)
	o.Canary = true
}

func (vc *VC) explicitPanic(st *State, x *ssa.Panic, guard string) {
	if !vc.hasPanicsIff {
		props := vc.nopanicProps()
		if len(props) == 1 && props[0] == "-" {
			// may_panic excuses run-time panics, not a panic statement of the function itself
			props = vc.spec.Props
		}
		vc.oblige("nopanic.explicit", vc.srcLabel(x), props, guard, "false", "explicit panic is unreachable", x.Pos())
		return
	}
	vc.panicExit(st, guard, x.Pos(), vc.srcLabel(x))
}

func (vc *VC) panicExit(st *State, guard string, pos token.Pos, what string) {
	for _, c := range vc.spec.clauses("panics_iff") {
		vc.oblige("panics-iff.panics", c.label()+":"+what, c.Props, guard, vc.panicsIff, "a panic happens only when the panic condition holds: "+c.Text, pos)
	}
	env := vc.selfEnv(st, nil)
	for _, c := range vc.spec.clauses("ensures_on_panic") {
		s, err := env.boolean(c.Expr)
		if err != nil {
			panic(execErr(vc.clauseErr(c, err).Error()))
		}
		vc.oblige("ensures-on-panic", c.label()+":"+what, c.Props, guard, s, c.Text, pos)
	}
}

func instrIndex(in ssa.Instruction) int {
	for i, x := range in.Block().Instrs {
		if x == in {
			return i
		}
	}
	return -1
}

func hasEmpty(m map[string]bool) bool {
	return m[""]
}

func callsRecover(fn *ssa.Function) bool {
	for _, b := range fn.Blocks {
		for _, in := range b.Instrs {
			if c, ok := in.(*ssa.Call); ok {
				if bi, ok := c.Call.Value.(*ssa.Builtin); ok && bi.Name() == "recover" {
					return true
				}
			}
		}
	}
	return false
}

// stableCaptured: the local variables captured by the deferred closure that nothing can write after
// the defer statement: their address is used only by loads, by stores that execute before the defer,
// and by the binding of this one closure, and the closure itself does not store to them.
func stableCaptured(d *ssa.Defer) []*ssa.Alloc {
	mc, ok := d.Call.Value.(*ssa.MakeClosure)
	if !ok {
		return nil
	}
	h, _ := mc.Fn.(*ssa.Function)
	var out []*ssa.Alloc
	for i, b := range mc.Bindings {
		a, ok := b.(*ssa.Alloc)
		if !ok || a.Referrers() == nil {
			continue
		}
		stable := true
		for _, r := range *a.Referrers() {
			switch x := r.(type) {
			case *ssa.UnOp, *ssa.DebugRef:
			case *ssa.MakeClosure:
				if x != mc {
					stable = false
				}
			case *ssa.Store:
				if x.Addr != ssa.Value(a) {
					stable = false // the address itself is stored somewhere
					break
				}
				before := x.Block() != d.Block() && x.Block().Dominates(d.Block()) ||
					x.Block() == d.Block() && instrIndex(x) < instrIndex(d)
				if !before {
					stable = false
				}
			default:
				stable = false
			}
		}
		// the handler must not write it either
		if stable && h != nil && i < len(h.FreeVars) && h.FreeVars[i].Referrers() != nil {
			for _, r := range *h.FreeVars[i].Referrers() {
				switch x := r.(type) {
				case *ssa.UnOp, *ssa.DebugRef:
				case *ssa.Store:
					stable = false
					_ = x
				default:
					stable = false
				}
			}
		}
		if stable {
			out = append(out, a)
		}
	}
	return out
}

// privateCells: local variables (allocations) that only this function and the closures it calls or
// defers itself can reach: the address is used by loads, by stores to it, and by closures whose
// only use is a direct call, defer or go statement in this function.  A callee without contract
// cannot change them.
func privateCells(fn *ssa.Function) []*ssa.Alloc {
	var out []*ssa.Alloc
	for _, b := range fn.Blocks {
		for _, in := range b.Instrs {
			a, ok := in.(*ssa.Alloc)
			if !ok || a.Referrers() == nil {
				continue
			}
			private := true
			for _, r := range *a.Referrers() {
				switch x := r.(type) {
				case *ssa.UnOp, *ssa.DebugRef:
				case *ssa.Store:
					if x.Addr != ssa.Value(a) {
						private = false
					}
				case *ssa.MakeClosure:
					if x.Referrers() == nil {
						private = false
						break
					}
					for _, cr := range *x.Referrers() {
						switch y := cr.(type) {
						case *ssa.Defer:
							if y.Call.Value != ssa.Value(x) {
								private = false
							}
						case *ssa.Call:
							if y.Call.Value != ssa.Value(x) {
								private = false
							}
						case *ssa.DebugRef:
						default:
							private = false
						}
					}
				default:
					private = false
				}
			}
			if private {
				out = append(out, a)
			}
		}
	}
	return out
}
