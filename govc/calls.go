package main

import (
	"fmt"
	"go/ast"
	"go/printer"
	"go/token"
	"go/types"
	"os"
	"regexp"
	"sort"
	"strings"

	"golang.org/x/tools/go/ssa"
)

// sourceSnippet gives the source text of the expression an instruction came from.
func (P *Program) sourceSnippet(pos token.Pos, in ssa.Instruction) string {
	// find the smallest enclosing expression in the syntax
	for _, pk := range []*struct{ files []*ast.File }{{P.logPkg.Syntax}, {exprSyntax(P)}} {
		for _, f := range pk.files {
			if f.Pos() <= pos && pos < f.End() {
				var best ast.Node
				ast.Inspect(f, func(n ast.Node) bool {
					if n == nil {
						return false
					}
					if n.Pos() > pos || pos >= n.End() {
						return false
					}
					switch n.(type) {
					case ast.Expr, *ast.AssignStmt, *ast.IncDecStmt, *ast.SendStmt, *ast.ExprStmt, *ast.DeferStmt, *ast.GoStmt:
						if want(in, n, pos) {
							best = n
						}
					}
					return true
				})
				if best != nil {
					var b strings.Builder
					printer.Fprint(&b, P.fset, best)
					s := strings.Join(strings.Fields(b.String()), " ")
					if len(s) > 70 {
						s = s[:67] + "..."
					}
					return s
				}
			}
		}
	}
	return strings.TrimSpace(in.String())
}

func exprSyntax(P *Program) []*ast.File {
	if P.exprPkg == nil {
		return nil
	}
	return P.exprPkg.Syntax
}

// want decides whether AST node n (containing pos) is the expression an SSA
// instruction at pos stands for.
func want(in ssa.Instruction, n ast.Node, pos token.Pos) bool {
	switch in.(type) {
	case *ssa.Slice:
		if s, ok := n.(*ast.SliceExpr); ok {
			return s.Lbrack == pos || s.Pos() <= pos
		}
		return false
	case *ssa.IndexAddr, *ssa.Index, *ssa.Lookup:
		if s, ok := n.(*ast.IndexExpr); ok {
			return s.Lbrack == pos || s.Pos() <= pos
		}
		return false
	case *ssa.FieldAddr, *ssa.Field:
		if s, ok := n.(*ast.SelectorExpr); ok {
			return s.Sel.Pos() == pos
		}
		return false
	case *ssa.Call, *ssa.Defer, *ssa.Go:
		if s, ok := n.(*ast.CallExpr); ok {
			return s.Lparen == pos
		}
		return false
	case *ssa.TypeAssert:
		_, ok := n.(*ast.TypeAssertExpr)
		return ok
	case *ssa.UnOp:
		if s, ok := n.(*ast.StarExpr); ok {
			return s.Star == pos
		}
		if s, ok := n.(*ast.UnaryExpr); ok {
			return s.OpPos == pos
		}
		if s, ok := n.(*ast.SelectorExpr); ok {
			return s.Sel.Pos() == pos
		}
		return false
	case *ssa.BinOp:
		if s, ok := n.(*ast.BinaryExpr); ok {
			return s.OpPos == pos
		}
		return false
	case *ssa.Store, *ssa.MapUpdate:
		if s, ok := n.(*ast.AssignStmt); ok {
			return s.TokPos == pos || s.Pos() <= pos
		}
		if _, ok := n.(*ast.IndexExpr); ok {
			return true
		}
		return false
	case *ssa.Panic:
		_, ok := n.(*ast.CallExpr)
		return ok
	case *ssa.Send:
		_, ok := n.(*ast.SendStmt)
		return ok
	}
	_, isExpr := n.(ast.Expr)
	return isExpr
}

// ---------------------------------------------------------------------------
// Calls

func (vc *VC) call(st *State, v *ssa.Call, cc *ssa.CallCommon, guard string, pos token.Pos) {
	var args []Term
	if cc.IsInvoke() || cc.StaticCallee() == nil {
		if _, isB := cc.Value.(*ssa.Builtin); !isB {
			args = append(args, vc.val(cc.Value))
		}
	}
	for _, a := range cc.Args {
		args = append(args, vc.val(a))
	}
	vc.callCommon(st, v, cc, args, guard, pos, false)
}

// setResult binds the result(s) of call value v.
func (vc *VC) setResults(v *ssa.Call, res []Term) {
	if v == nil {
		return
	}
	if _, isTup := v.Type().(*types.Tuple); isTup {
		vc.tuples[v] = res
		return
	}
	if len(res) == 1 {
		vc.vals[v] = Term{S: res[0].S, Sort: res[0].Sort, T: v.Type(), Loc: res[0].Loc}
	}
}

func (vc *VC) freshResults(sig *types.Signature, prefix string) []Term {
	var res []Term
	for i := 0; i < sig.Results().Len(); i++ {
		rt := sig.Results().At(i).Type()
		sortName := vc.ss().sortOf(rt)
		n := vc.fresh(prefix, sortName)
		vc.assume(vc.ss().typeInv(rt, n, 0))
		res = append(res, Term{S: n, Sort: sortName, T: rt})
	}
	return res
}

func (vc *VC) callCommon(st *State, v *ssa.Call, cc *ssa.CallCommon, args []Term, guard string, pos token.Pos, isDefer bool) {
	if b, ok := cc.Value.(*ssa.Builtin); ok && !cc.IsInvoke() {
		vc.builtin(st, v, b, cc, args, guard, pos)
		return
	}
	sig := cc.Signature()
	label := ""
	if v != nil {
		label = vc.srcLabel(v)
	} else {
		label = "deferred " + cc.String()
	}
	if cc.IsInvoke() {
		// interface method call
		recv := args[0]
		vc.oblige("nopanic.nil-iface", label, vc.nopanicProps(), guard, not(sx("=", recv.S, "iface_nil")), "interface receiver is not nil", pos)
		spec := vc.ifaceSpec(cc)
		if spec == nil {
			vc.havocAll(st, fmt.Sprintf("call of interface method %s without contract (havoc)", cc.Method.FullName()))
			vc.setResults(v, vc.freshResults(sig, "r"))
			return
		}
		names := []string{"this"}
		for i := 0; i < sig.Params().Len(); i++ {
			names = append(names, sig.Params().At(i).Name())
		}
		vc.applyContract(st, v, spec, names, args, sig, guard, pos, label, vc.P.logPkg.Types)
		return
	}
	if callee := cc.StaticCallee(); callee != nil {
		if special(vc, st, v, callee, args, guard, pos, label) {
			return
		}
		spec := vc.P.findSpec(callee)
		if spec == nil && vc.tryInline(st, v, callee, args, guard, pos) {
			return
		}
		if spec == nil {
			// nothing is known about the callee: where the function promises not to panic, the call
			// must be covered by a recovering handler
			if vc.spec.HasNoPanic && !(len(vc.spec.NoPanic) == 1 && vc.spec.NoPanic[0] == "-") {
				vc.oblige("nopanic.callee-without-contract", label, vc.nopanicProps(), guard, "false",
					"call of "+vc.P.specName(callee)+", which has no contract, is covered by a recovering handler", pos)
			}
			// locals the callee cannot reach keep their values
			type kept struct{ addr, val Term }
			var keep []kept
			for _, a := range vc.privateCells {
				if addr, ok := vc.vals[a]; ok {
					keep = append(keep, kept{addr, vc.load(st, addr)})
				}
			}
			if vc.valueOnlyCall(vc.pkgOf(callee), args) && callee.Signature.Recv() == nil && len(callee.FreeVars) == 0 {
				vc.havocForeign(st, fmt.Sprintf("call of %s without contract: handed no reference, it changes only state outside this package", vc.P.specName(callee)))
			} else {
				vc.havocAll(st, fmt.Sprintf("call of %s without contract (havoc)", vc.P.specName(callee)))
			}
			for _, k := range keep {
				vc.store(st, k.addr, k.val)
			}
			vc.setResults(v, vc.freshResults(sig, "r"))
			return
		}
		var names []string
		for i := range callee.Params {
			n := vc.P.contractParamName(spec, callee, i)
			if i < len(spec.Params) && spec.Params[i] != "" {
				n = spec.Params[i]
			}
			names = append(names, n)
		}
		// a closure literal called (or deferred) directly: its captured variables are the bindings
		if mc, ok := cc.Value.(*ssa.MakeClosure); ok {
			env := map[string]Term{}
			for i, f := range callee.FreeVars {
				if i < len(mc.Bindings) {
					env["&"+f.Name()] = vc.val(mc.Bindings[i])
					env[fmt.Sprintf("&#%d", i)] = vc.val(mc.Bindings[i])
				}
			}
			vc.applyContractEnv(st, v, spec, names, args, callee.Signature, guard, pos, label, vc.pkgOf(callee), env, false)
			return
		}
		vc.applyContract(st, v, spec, names, args, callee.Signature, guard, pos, label, vc.pkgOf(callee))
		return
	}
	// call through a function value
	fv := args[0]
	vc.oblige("nopanic.nil-func", label, vc.nopanicProps(), guard, not(sx("=", fv.S, "0")), "function value is not nil", pos)
	// seq(yield): the driver of a range-over-func loop whose body is under contract
	if len(cc.Args) == 1 {
		if mc, ok := cc.Args[0].(*ssa.MakeClosure); ok {
			if yf, ok := mc.Fn.(*ssa.Function); ok && yf.Synthetic == "range-over-func yield" {
				if ysp := vc.P.findSpec(yf); ysp != nil {
					vc.rangeFuncCall(st, v, fv, mc, yf, ysp, guard, pos, label)
					return
				}
			}
		}
	}
	// a captured variable the contract says holds a known closure?
	if name := vc.calleeHint(cc.Value); name != "" {
		target := vc.spec.Callee[name]
		var spec *FuncSpec
		var callee *ssa.Function
		if target == "self" {
			spec = vc.spec
			callee = vc.fn
		} else if s, ok := vc.P.spec.Funcs[target]; ok {
			spec = s
			callee = vc.P.funcs[target]
		}
		if spec != nil && callee != nil {
			var names []string
			for i := range callee.Params {
				names = append(names, vc.P.contractParamName(spec, callee, i))
			}
			cargs := args[1:]
			env := map[string]Term{}
			if callee == vc.fn {
				for _, f := range callee.FreeVars {
					env["&"+f.Name()] = vc.vals[f]
				}
			} else {
				// the variable holds the one closure this function makes of that literal: its captured
				// variables are the bindings of that MakeClosure
				var mcs []*ssa.MakeClosure
				for _, b := range vc.fn.Blocks {
					for _, in := range b.Instrs {
						if mc, ok := in.(*ssa.MakeClosure); ok && mc.Fn == ssa.Value(callee) {
							mcs = append(mcs, mc)
						}
					}
				}
				if len(mcs) != 1 {
					vc.failf("callee clause %s = %s: the function makes %d closures of that literal", name, target, len(mcs))
				}
				for i, f := range callee.FreeVars {
					if i < len(mcs[0].Bindings) {
						env["&"+f.Name()] = vc.val(mcs[0].Bindings[i])
						env[fmt.Sprintf("&#%d", i)] = vc.val(mcs[0].Bindings[i])
					}
				}
				// that it is this closure the variable holds is itself an obligation
				vc.declareFun("closure_fn", []string{"Int"}, "Int")
				vc.oblige("callee-is", name, vc.nopanicProps(), guard, sx("=", sx("closure_fn", fv.S), vc.funcConst(vc.P.specName(callee))),
					"the function value called is the closure "+target, pos)
			}
			vc.applyContractEnv(st, v, spec, names, cargs, callee.Signature, guard, pos, label, vc.pkgOf(callee), env, callee == vc.fn)
			return
		}
	}
	// unknown function value: ghost call counter, unconstrained result
	cv := callsVar(cc.Value.Type())
	calls := vc.get(st, cv, "(Array Int Int)")
	n := sx("+", sx("select", calls, fv.S), "1")
	vc.setAt(st, cv, "(Array Int Int)", fv.S, n)
	if len(args) > 1 {
		a0 := args[1]
		vc.setAt(st, arg0Var(cc.Value.Type()), "(Array Int "+a0.Sort+")", fv.S, a0.S)
	}
	res := vc.freshResults(sig, "r")
	if len(res) == 1 {
		vc.assume(sx("=", res[0].S, sx(vc.retFun(sig.Results().At(0).Type()), fv.S, n)))
	}
	vc.note("calls through function values are assumed not to modify library state")
	vc.setResults(v, res)
}

// calleeHint: if the called value was loaded from a captured variable or local
// named in a `callee` clause, return that name.
func (vc *VC) calleeHint(v ssa.Value) string {
	if len(vc.spec.Callee) == 0 {
		return ""
	}
	if u, ok := v.(*ssa.UnOp); ok && u.Op == token.MUL {
		switch a := u.X.(type) {
		case *ssa.FreeVar:
			if _, ok := vc.spec.Callee[a.Name()]; ok {
				return a.Name()
			}
		case *ssa.Alloc:
			if _, ok := vc.spec.Callee[a.Comment]; ok {
				return a.Comment
			}
		}
	}
	if p, ok := v.(*ssa.Parameter); ok {
		if _, ok := vc.spec.Callee[p.Name()]; ok {
			return p.Name()
		}
	}
	return ""
}

func (vc *VC) ifaceSpec(cc *ssa.CallCommon) *FuncSpec {
	m := cc.Method
	// static interface type first, then the interface declaring the method
	var cands []string
	if n, ok := types.Unalias(cc.Value.Type()).(*types.Named); ok {
		cands = append(cands, ifaceName(n)+"."+m.Name())
	}
	if recv := m.Type().(*types.Signature).Recv(); recv != nil {
		if n, ok := types.Unalias(recv.Type()).(*types.Named); ok {
			cands = append(cands, ifaceName(n)+"."+m.Name())
		}
	}
	for _, c := range cands {
		if s, ok := vc.P.spec.Funcs[c]; ok && s.IsIface {
			return s
		}
	}
	return nil
}

func ifaceName(n *types.Named) string {
	if n.Obj().Pkg() == nil || n.Obj().Pkg().Path() == logPath {
		return n.Obj().Name()
	}
	return n.Obj().Pkg().Name() + "." + n.Obj().Name()
}

func (vc *VC) applyContract(st *State, v *ssa.Call, spec *FuncSpec, names []string, args []Term, sig *types.Signature,
	guard string, pos token.Pos, label string, pkg *types.Package) {
	vc.applyContractEnv(st, v, spec, names, args, sig, guard, pos, label, pkg, nil, false)
}

// applyContractEnv: check the precondition, havoc the frame, assume the postcondition.
func (vc *VC) applyContractEnv(st *State, v *ssa.Call, spec *FuncSpec, names []string, args []Term, sig *types.Signature,
	guard string, pos token.Pos, label string, pkg *types.Package, extra map[string]Term, recursive bool) {
	vc.setResults(v, vc.applyContractFull(st, spec, names, args, sig, guard, pos, label, pkg, extra, recursive))
}

func (vc *VC) applyContractRes(st *State, spec *FuncSpec, names []string, args []Term, sig *types.Signature,
	guard string, pos token.Pos, label string, pkg *types.Package, extra map[string]Term) []Term {
	return vc.applyContractFull(st, spec, names, args, sig, guard, pos, label, pkg, extra, false)
}

func (vc *VC) applyContractFull(st *State, spec *FuncSpec, names []string, args []Term, sig *types.Signature,
	guard string, pos token.Pos, label string, pkg *types.Package, extra map[string]Term, recursive bool) []Term {
	if spec.Extern {
		vc.usedExterns[spec.Name] = true
	} else {
		vc.usedSpecs[spec.Name] = true
	}
	var pcRes *Term
	if spec.PureConst {
		rt := sig.Results().At(0).Type()
		res := vc.pureConstApp(spec, args, rt)
		n := vc.fresh("r", res.Sort)
		vc.assume(sx("=", n, res.S))
		vc.assume(vc.ss().typeInv(rt, n, 0))
		pcRes = &Term{S: n, Sort: res.Sort, T: rt}
		if len(spec.clauses("ensures")) == 0 && len(spec.clauses("requires")) == 0 {
			return []Term{*pcRes}
		}
	}
	pre := st.clone(vc)
	env := &Env{vc: vc, st: pre, old: pre, vars: map[string]Term{}, pkg: pkg}
	env.existed = vc.existedBeforeCall(spec)
	// the callee's own frame: one level below the caller's
	if true {
		fr := vc.fresh("fr", "Int")
		vc.declare("frame_self", "Int")
		vc.assume(sx("=", sx("up", fr, "1"), "frame_self"))
		vc.P.prelude.useFile(vc, "frames")
		env.vars["$frame"] = Term{S: fr, Sort: "Int"}
	}
	for i, n := range names {
		if i < len(args) {
			env.vars[n] = args[i]
		}
	}
	for k, t := range extra {
		env.vars[k] = t
	}
	// the callee's lets are local to this application
	saveLets := vc.lets
	vc.lets = map[string]Term{}
	defer func() { vc.lets = saveLets }()
	for _, c := range spec.Clauses {
		if c.Kind != "let" {
			continue
		}
		t, err := env.translate(c.Expr)
		if err != nil {
			panic(execErr(fmt.Sprintf("let %s of %s at call: %v", c.Name, spec.Name, err)))
		}
		t = env.value(t)
		n := vc.fresh("let_"+c.Name, t.Sort)
		vc.assume(sx("=", n, t.S))
		vc.lets[c.Name] = Term{S: n, Sort: t.Sort, T: t.T}
	}
	for _, c := range spec.clauses("requires") {
		s, err := env.boolean(c.Expr)
		if err != nil {
			panic(execErr(fmt.Sprintf("requires of %s at call: %v", spec.Name, err)))
		}
		vc.oblige("call-pre", label+": "+spec.Name+"."+c.label(), unionProps(vc.nopanicProps(), c.Props), guard, s, "precondition of "+spec.Name+": "+c.Text, pos)
	}
	if recursive {
		for _, c := range spec.clauses("decreases") {
			if c.Loop != 0 {
				continue
			}
			s, err := env.translate(c.Expr)
			if err != nil {
				panic(execErr(fmt.Sprintf("decreases of %s: %v", spec.Name, err)))
			}
			own, err := vc.selfEnv(vc.entry, nil).translate(c.Expr)
			if err != nil {
				panic(execErr(fmt.Sprintf("decreases of %s: %v", spec.Name, err)))
			}
			vc.oblige("decreases", label, c.Props, guard, and(sx("<", s.S, own.S), sx(">=", own.S, "0")), "measure decreases at the recursive call: "+c.Text, pos)
		}
	}
	// panics
	if pi := spec.clauses("panics_iff"); len(pi) > 0 {
		var cs []string
		for _, c := range pi {
			s, err := env.boolean(c.Expr)
			if err != nil {
				panic(execErr(fmt.Sprintf("panics_iff of %s at call: %v", spec.Name, err)))
			}
			cs = append(cs, s)
		}
		q := or(cs...)
		if vc.hasPanicsIff {
			vc.panicExit(st, and(guard, q), pos, label)
			vc.assumeG(guard, not(q))
		} else {
			vc.oblige("nopanic.callee", label, vc.nopanicProps(), guard, not(q), "callee "+spec.Name+" does not panic", pos)
		}
	}
	// frame (the modifies clause may mention the result, e.g. pooled[ifval(result)])
	res := vc.freshResults(sig, "r")
	if pcRes != nil {
		// the postconditions speak about the very value the function symbol denotes
		res = []Term{*pcRes}
	}
	if !spec.Pure {
		menv := &Env{vc: vc, st: pre, old: pre, vars: map[string]Term{}, pkg: pkg, parent: env, existed: env.existed}
		vc.bindResults(menv, sig, spec, res)
		vc.applyModifiesB(st, spec, menv, guard, vc.valueOnlyCall(pkg, args))
	}
	post := &Env{vc: vc, st: st, old: pre, vars: env.vars, pkg: pkg, existed: env.existed}
	vc.bindResults(post, sig, spec, res)
	// ghost assignments the callee performs at its return, in order
	for _, c := range spec.clauses("ghostset") {
		rhs, err := post.translate(c.Expr)
		if err != nil {
			panic(execErr(fmt.Sprintf("ghost assignment of %s at call: %v", spec.Name, err)))
		}
		rhs = post.value(rhs)
		tgs := vc.exprTargets(post, c.LHS, c.Name)
		if len(tgs) == 1 {
			if tgs[0].idx == "" {
				vc.set(st, tgs[0].name, tgs[0].sort, rhs.S)
			} else {
				vc.setAt(st, tgs[0].name, tgs[0].sort, tgs[0].idx, rhs.S)
			}
		}
	}
	for _, c := range spec.clauses("ensures") {
		s, err := post.boolean(c.Expr)
		if err != nil {
			panic(execErr(fmt.Sprintf("ensures of %s at call: %v", spec.Name, err)))
		}
		vc.assumeG(guard, s)
	}
	return res
}

// modTarget describes one item of a modifies clause.
type modTarget struct {
	name, sort string
	idx        string // "" = whole variable
}

// modifiesTargets translates the modifies clauses of spec in env.
func (vc *VC) modifiesTargets(spec *FuncSpec, env *Env) (targets []modTarget, all bool) {
	targets, all, _ = vc.modifiesTargets3(spec, env)
	return
}

// modifiesTargets3 also reports the item `foreign`: state outside the package (see havocForeign).
func (vc *VC) modifiesTargets3(spec *FuncSpec, env *Env) (targets []modTarget, all bool, foreign bool) {
	// ghost assignments of the contract write their targets
	for _, c := range spec.clauses("ghostset") {
		targets = append(targets, vc.exprTargets(env, c.LHS, c.Name)...)
	}
	for _, c := range spec.clauses("modifies") {
		for _, item := range splitTop(c.Text, ',') {
			item = strings.TrimSpace(item)
			switch {
			case item == "" || item == "nothing":
			case item == "everything":
				all = true
			case item == "foreign":
				foreign = true
			case strings.HasPrefix(item, "all(") && strings.HasSuffix(item, ")"):
				// all(T.f.g): whole field array; all(T): every field of every T object
				path := item[4 : len(item)-1]
				if !strings.Contains(path, ".") || strings.Count(path, ".") == 1 && vc.P.findPkgByName(strings.Split(path, ".")[0], env.pkg) != nil {
					t, _ := env.resolveType(path)
					if t == nil {
						panic(execErr("unknown type in modifies " + item))
					}
					targets = append(targets, vc.structTargets(t, "")...)
				} else {
					targets = append(targets, vc.allFieldTargets(env, path)...)
				}
			case strings.HasPrefix(item, "elems(") && strings.HasSuffix(item, ")"):
				t, _ := env.resolveType(item[6 : len(item)-1])
				n, s := vc.elemVar(t)
				targets = append(targets, modTarget{n, s, ""})
			case strings.HasPrefix(item, "elemsof(") && strings.HasSuffix(item, ")"):
				// elemsof(s): the elements of the backing array of slice s
				e, err := parseExpr(item[8 : len(item)-1])
				if err != nil {
					panic(execErr(err.Error()))
				}
				sl, err := env.translate(e)
				if err != nil {
					panic(execErr(err.Error()))
				}
				sl = env.value(sl)
				st, ok := types.Unalias(sl.T).Underlying().(*types.Slice)
				if !ok {
					panic(execErr("elemsof() needs a slice: " + item))
				}
				n, s := vc.elemVar(st.Elem())
				targets = append(targets, modTarget{n, s, slRef(sl.S)})
			case strings.HasPrefix(item, "freevar(") && strings.HasSuffix(item, ")"):
				// freevar(N): the N-th captured variable of the function (a cell)
				t, ok := env.lookup("&#" + strings.TrimSpace(item[8:len(item)-1]))
				if !ok {
					panic(execErr("no such captured variable in modifies " + item))
				}
				n, s := vc.cellVar(derefT(t.T))
				targets = append(targets, modTarget{n, s, t.S})
			case strings.HasPrefix(item, "cells(") && strings.HasSuffix(item, ")"):
				t, _ := env.resolveType(item[6 : len(item)-1])
				n, s := vc.cellVar(t)
				targets = append(targets, modTarget{n, s, ""})
			case strings.HasPrefix(item, "map(") && strings.HasSuffix(item, ")"):
				e, err := parseExpr(item[4 : len(item)-1])
				if err != nil {
					panic(execErr(err.Error()))
				}
				m, err := env.translate(e)
				if err != nil {
					panic(execErr(err.Error()))
				}
				mt, ok := types.Unalias(m.T).Underlying().(*types.Map)
				if !ok {
					panic(execErr("map() in modifies needs a map: " + item))
				}
				hn, hs, vn, vs := vc.mapVars(mt)
				targets = append(targets, modTarget{hn, hs, m.S}, modTarget{vn, vs, m.S})
			case strings.HasPrefix(item, "*"):
				// *p: every field of the object p points to
				e, err := parseExpr(item[1:])
				if err != nil {
					panic(execErr(err.Error()))
				}
				pt, err := env.translate(e)
				if err != nil {
					panic(execErr(err.Error()))
				}
				st := derefT(pt.T)
				if _, ok := isStruct(st); !ok {
					n, s := vc.cellVar(st)
					targets = append(targets, modTarget{n, s, pt.S})
				} else {
					targets = append(targets, vc.structTargets(st, pt.S)...)
				}
			case strings.HasPrefix(item, "calls(") && strings.HasSuffix(item, ")"):
				e, err := parseExpr(item[6 : len(item)-1])
				if err != nil {
					panic(execErr(err.Error()))
				}
				f, err := env.translate(e)
				if err != nil {
					panic(execErr(err.Error()))
				}
				targets = append(targets, modTarget{callsVar(f.T), "(Array Int Int)", f.S})
				if sig, ok := types.Unalias(f.T).Underlying().(*types.Signature); ok && sig.Params().Len() > 0 {
					targets = append(targets, modTarget{arg0Var(f.T), "(Array Int " + vc.ss().sortOf(sig.Params().At(0).Type()) + ")", f.S})
				}
			default:
				e, err := parseExpr(item)
				if err != nil {
					panic(execErr(err.Error()))
				}
				targets = append(targets, vc.exprTargets(env, e, item)...)
			}
		}
	}
	return
}

func (vc *VC) allFieldTargets(env *Env, path string) []modTarget {
	parts := strings.Split(path, ".")
	if len(parts) >= 3 && vc.P.findPkgByName(parts[0], env.pkg) != nil {
		// pkg.Type.field...
		parts = append([]string{parts[0] + "." + parts[1]}, parts[2:]...)
	}
	t, _ := env.resolveType(parts[0])
	if t == nil {
		panic(execErr("unknown type in modifies all(" + path + ")"))
	}
	cur := t
	var out []modTarget
	if valueStruct(t) {
		n, srt := vc.cellVar(t)
		return []modTarget{{n, srt, ""}}
	}
	for i, f := range parts[1:] {
		idx, ok := fieldPath(cur, vc.P.logPkg.Types, f)
		if !ok {
			panic(execErr("no field " + f + " in modifies all(" + path + ")"))
		}
		for _, fi := range idx {
			s, _ := isStruct(derefT(cur))
			last := i == len(parts[1:])-1 && fi == idx[len(idx)-1]
			ft := s.Field(fi).Type()
			if last {
				if subObject(ft) {
					out = append(out, vc.structTargets(ft, "")...)
				} else {
					n, srt, _ := vc.fieldVar(derefT(cur), fi)
					out = append(out, modTarget{n, srt, ""})
				}
			}
			cur = ft
		}
	}
	return out
}

func derefT(t types.Type) types.Type {
	if p, ok := types.Unalias(t).Underlying().(*types.Pointer); ok {
		return p.Elem()
	}
	return t
}

// structTargets lists every field array of struct type t (at object idx, or whole when idx == "").
func (vc *VC) structTargets(t types.Type, ref string) []modTarget {
	s, _ := isStruct(t)
	var out []modTarget
	if valueStruct(t) {
		// value-like structs behind a pointer live as whole values in a cell array
		n, srt := vc.cellVar(t)
		return []modTarget{{n, srt, ref}}
	}
	for i := 0; i < s.NumFields(); i++ {
		ft := s.Field(i).Type()
		if subObject(ft) {
			sub := ""
			if ref != "" {
				sub = sx(vc.subFun(t, i), ref)
			}
			out = append(out, vc.structTargets(ft, sub)...)
			continue
		}
		n, srt, _ := vc.fieldVar(t, i)
		out = append(out, modTarget{n, srt, ref})
	}
	return out
}

// exprTargets: x.f (field of object x), g (global or ghost variable), m[k] (ghost map entry), x.ghostfield
func (vc *VC) exprTargets(env *Env, e Expr, text string) []modTarget {
	switch x := e.(type) {
	case *EIdent:
		if gf, ok := vc.P.spec.GhostFields[x.Name]; ok {
			// a ghost field name alone: the field of every object
			_, sortName := env.resolveType(gf.Sort)
			return []modTarget{{"G_" + x.Name, "(Array Int " + sortName + ")", ""}}
		}
		if ty, ok := vc.P.spec.GhostVars[x.Name]; ok {
			_, sortName := env.resolveType(ty)
			return []modTarget{{"G_" + x.Name, sortName, ""}}
		}
		if o := vc.P.logPkg.Types.Scope().Lookup(x.Name); o != nil {
			if v, ok := o.(*types.Var); ok {
				if subObject(v.Type()) {
					return vc.structTargets(v.Type(), vc.globalRef(v))
				}
				return []modTarget{{vc.globalName(v), vc.ss().sortOf(v.Type()), ""}}
			}
		}
		// a captured variable (under the name the function gives it now, if the contract's name is gone)
		if _, bound := env.lookup("&" + x.Name); !bound && !vc.localNames()[x.Name] {
			if _, known := vc.renamed[x.Name]; !known {
				env.translate(x) // resolves a renamed variable, if that is what it is
			}
		}
		if a, renamed := vc.renamed[x.Name]; renamed {
			if _, bound := env.lookup("&" + x.Name); !bound {
				x = &EIdent{Name: a}
			}
		}
		if t, ok := env.lookup("&" + x.Name); ok {
			elem := derefT(t.T)
			n, s := vc.cellVar(elem)
			return []modTarget{{n, s, t.S}}
		}
	case *EIndex:
		if id, ok := x.X.(*EIdent); ok {
			if ty, ok := vc.P.spec.GhostVars[id.Name]; ok {
				_, sortName := env.resolveType(ty)
				k, err := env.translate(x.I)
				if err != nil {
					panic(execErr(err.Error()))
				}
				if splitSortArgs(sortName)[0] != "Int" {
					k = env.value(k)
				}
				return []modTarget{{"G_" + id.Name, sortName, k.S}}
			}
		}
	case *ESel:
		// package-qualified global
		if id, ok := x.X.(*EIdent); ok {
			if _, bound := env.lookup(id.Name); !bound {
				if p := vc.P.findPkgByName(id.Name, env.pkg); p != nil {
					if o, ok := p.Scope().Lookup(x.Name).(*types.Var); ok {
						if subObject(o.Type()) {
							return vc.structTargets(o.Type(), vc.globalRef(o))
						}
						return []modTarget{{vc.globalName(o), vc.ss().sortOf(o.Type()), ""}}
					}
				}
			}
		}
		base, err := env.translate(x.X)
		if err != nil {
			panic(execErr(err.Error()))
		}
		if gf, ok := vc.P.spec.GhostFields[x.Name]; ok {
			isReal := false
			if base.T != nil {
				_, isReal = fieldPath(base.T, vc.P.logPkg.Types, x.Name)
			}
			if !isReal {
				_, sortName := env.resolveType(gf.Sort)
				return []modTarget{{"G_" + x.Name, "(Array " + base.Sort + " " + sortName + ")", base.S}}
			}
		}
		if base.T == nil {
			break
		}
		pkg := vc.P.logPkg.Types
		if n, ok := derefNamed(base.T); ok && n.Obj().Pkg() != nil {
			pkg = n.Obj().Pkg()
		}
		path, ok := fieldPath(base.T, pkg, x.Name)
		if !ok {
			break
		}
		cur := base
		if valueStruct(derefT(base.T)) {
			n, srt := vc.cellVar(derefT(base.T))
			return []modTarget{{n, srt, base.S}}
		}
		for i, fi := range path {
			st := derefT(cur.T)
			s, _ := isStruct(st)
			ft := s.Field(fi).Type()
			if i == len(path)-1 {
				if subObject(ft) {
					return vc.structTargets(ft, sx(vc.subFun(st, fi), cur.S))
				}
				n, srt, _ := vc.fieldVar(st, fi)
				return []modTarget{{n, srt, cur.S}}
			}
			cur = env.fieldStep(cur, fi)
		}
	}
	panic(execErr("cannot interpret modifies item " + text))
}

// valueOnlyCall: a call into another package that hands over no reference (strings, numbers and
// booleans only) and is not a method of one of this package's objects.
func (vc *VC) valueOnlyCall(pkg *types.Package, args []Term) bool {
	if pkg == nil || vc.fn == nil || pkg == vc.pkgOf(vc.fn) || len(vc.P.foreignStores) > 0 {
		return false
	}
	for _, a := range args {
		if a.T == nil {
			return false
		}
		b, ok := types.Unalias(a.T).Underlying().(*types.Basic)
		if !ok || b.Kind() == types.UnsafePointer || b.Kind() == types.Uintptr {
			return false
		}
	}
	return true
}

func (vc *VC) applyModifies(st *State, spec *FuncSpec, env *Env, guard string) {
	vc.applyModifiesB(st, spec, env, guard, false)
}

func (vc *VC) applyModifiesB(st *State, spec *FuncSpec, env *Env, guard string, boundary bool) {
	targets, all, foreign := vc.modifiesTargets3(spec, env)
	if all && boundary {
		vc.havocForeign(st, "a callee of another package that is handed no reference changes only state outside this package")
		return
	}
	if all {
		vc.havocAll(st, "")
		return
	}
	if foreign {
		vc.havocForeign(st, "")
	}
	for _, t := range targets {
		if t.idx == "" {
			vc.havoc(st, t.name, t.sort)
			continue
		}
		parts := splitSortArgs(t.sort)
		f := vc.havocValue(parts[1])
		vc.setAt(st, t.name, t.sort, t.idx, f)
	}
}

// onlyFreshWrites: was state variable n written, anywhere in the function, only at references
// the function allocated itself?
func (vc *VC) onlyFreshWrites(n string) bool {
	seen := false
	src := vc.written
	if vc.writtenFrozen != nil {
		src = vc.writtenFrozen
	}
	for _, m := range src {
		if m["*"] != nil {
			return false
		}
		for ix := range m[n] {
			seen = true
			// a sub-object of a fresh object is fresh
			for strings.HasPrefix(ix, "(sub_") && strings.HasSuffix(ix, ")") {
				if sp := strings.IndexByte(ix, ' '); sp > 0 {
					ix = ix[sp+1 : len(ix)-1]
				} else {
					break
				}
			}
			if _, ok := vc.allocBlock[ix]; !ok {
				if os.Getenv("GOVC_DEBUG") != "" {
					fmt.Fprintf(os.Stderr, "frame: %s written at non-fresh %q\n", n, ix)
				}
				return false
			}
		}
	}
	return seen
}

// frameObligations: every state variable the function wrote must be covered by its modifies clauses.
func (vc *VC) frameObligations(st *State, guard string, pos token.Pos, kind string, results []Term) {
	if vc.spec.clauses("modifies") == nil && !vc.spec.Pure {
		return
	}
	env := vc.selfEnv(vc.entry, results)
	targets, all, foreignOK := vc.modifiesTargets3(vc.spec, env)
	if all {
		return
	}
	allowed := map[string][]string{}
	whole := map[string]bool{}
	for _, t := range targets {
		if t.idx == "" {
			whole[t.name] = true
		} else {
			allowed[t.name] = append(allowed[t.name], t.idx)
		}
	}
	// variables possibly changed: those whose current term differs from the entry term
	names := sortedKeys(vc.stateSort)
	for _, n := range names {
		if whole[n] || strings.HasPrefix(n, "rng_") || strings.HasPrefix(n, "rngpos_") {
			continue
		}
		if foreignOK && vc.foreignVar(n) {
			continue
		}
		sortName := vc.stateSort[n]
		cur := vc.get(st, n, sortName)
		old := vc.get(vc.entry, n, sortName)
		if cur == old {
			continue
		}
		if strings.HasPrefix(sortName, "(Array Int ") && vc.onlyFreshWrites(n) {
			continue // every write went to an object this function allocated: nothing that existed at entry changed
		}
		var goal string
		if strings.HasPrefix(sortName, "(Array ") {
			parts := splitSortArgs(sortName)
			conds := []string{}
			for _, ix := range allowed[n] {
				conds = append(conds, not(sx("=", "fx", ix)))
			}
			if parts[0] == "Int" {
				conds = append(conds, sx("is_old", "fx"))
			}
			goal = fmt.Sprintf("(forall ((fx %s)) %s)", parts[0], implies(and(conds...), sx("=", sx("select", cur, "fx"), sx("select", old, "fx"))))
		} else {
			goal = sx("=", cur, old)
		}
		vc.oblige(kind, n, nil, guard, goal, "state variable "+n+" is unchanged outside the modifies clause", pos)
	}
}

// ---------------------------------------------------------------------------
// Builtins

func (vc *VC) builtin(st *State, v *ssa.Call, b *ssa.Builtin, cc *ssa.CallCommon, args []Term, guard string, pos token.Pos) {
	switch b.Name() {
	case "len":
		a := args[0]
		switch a.Sort {
		case "Str":
			vc.define(v, Term{S: sx("slen", a.S), Sort: "Int"})
		case "Slice":
			vc.define(v, Term{S: sx("sl_len", a.S), Sort: "Int"})
		default:
			if mt, ok := types.Unalias(a.T).Underlying().(*types.Map); ok {
				_ = mt
				vc.declareFun("map_len", []string{"Int"}, "Int")
				n := vc.fresh("len", "Int")
				vc.assume(sx(">=", n, "0"))
				vc.define(v, Term{S: n, Sort: "Int"})
				return
			}
			if _, ok := types.Unalias(a.T).Underlying().(*types.Chan); ok {
				n := vc.fresh("len", "Int")
				vc.assume(sx(">=", n, "0"))
				vc.define(v, Term{S: n, Sort: "Int"})
				return
			}
			vc.failf("len of %s", a.T)
		}
	case "cap":
		a := args[0]
		if a.Sort == "Slice" {
			vc.define(v, Term{S: sx("sl_cap", a.S), Sort: "Int"})
			return
		}
		n := vc.fresh("cap", "Int")
		vc.assume(sx(">=", n, "0"))
		vc.define(v, Term{S: n, Sort: "Int"})
	case "append":
		vc.appendOp(st, v, args, guard)
	case "min", "max":
		op := "<="
		if b.Name() == "max" {
			op = ">="
		}
		cur := args[0].S
		for _, a := range args[1:] {
			cur = sx("ite", sx(op, cur, a.S), cur, a.S)
		}
		vc.define(v, Term{S: cur, Sort: args[0].Sort})
	case "close":
		vc.closeChan(st, args[0], guard, pos, vc.srcLabel(v))
	case "delete":
		m := args[0]
		mt := types.Unalias(m.T).Underlying().(*types.Map)
		hn, hs, _, _ := vc.mapVars(mt)
		h := vc.get(st, hn, hs)
		vc.setAt(st, hn, hs, m.S, sx("store", sx("select", h, m.S), args[1].S, "false"))
	case "copy":
		vc.havocAll(st, "builtin copy (over-approximated)")
		vc.bindFresh(v, guard)
	case "recover":
		// the value the goroutine is panicking with (nil when it is not), and the panic stops
		if _, ok := vc.P.spec.GhostVars["panicking"]; ok {
			cur := vc.get(st, "G_panicking", "Iface")
			vc.define(v, Term{S: cur, Sort: "Iface"})
			vc.set(st, "G_panicking", "Iface", "iface_nil")
		} else {
			vc.define(v, Term{S: "iface_nil", Sort: "Iface"})
		}
	case "print", "println":
	case "ssa:wrapnilchk":
		vc.define(v, args[0])
	case "StringData":
		// unsafe.StringData / unsafe.String: str_of(str_data(s), len s) == s  (assumed, listed in the trusted base)
		vc.unsafeStrings()
		vc.define(v, Term{S: sx("str_data", args[0].S), Sort: "Int"})
	case "String":
		vc.unsafeStrings()
		vc.define(v, Term{S: sx("str_of", args[0].S, args[1].S), Sort: "Str"})
	default:
		vc.failf("unsupported builtin %s", b.Name())
	}
}

func (vc *VC) unsafeStrings() {
	vc.P.prelude.use(vc, "str_of")
	vc.note("unsafe.StringData/unsafe.String are modelled by str_of(str_data(s), len(s)) == s")
}

// appendOp models append(s, t...).
func (vc *VC) appendOp(st *State, v *ssa.Call, args []Term, guard string) {
	s, t := args[0], args[1]
	et := types.Unalias(v.Type()).Underlying().(*types.Slice).Elem()
	esort := vc.ss().sortOf(et)
	name, sortName := vc.elemVar(et)
	cur := vc.get(st, name, sortName)
	var tlen, tread string
	if t.Sort == "Str" {
		tlen = sx("slen", t.S)
		tread = sx("select", sx("sarr", t.S), "@K@")
	} else {
		tlen = sx("sl_len", t.S)
		tread = sx("select", sx("select", cur, sx("sl_ref", t.S)), sx("sl_idx", t.S, "@K@"))
	}
	// appending nothing returns s
	r := vc.fresh("app", "Slice")
	fits := sx("<=", sx("+", sx("sl_len", s.S), tlen), sx("sl_cap", s.S))
	fr := vc.allocRef("app_" + v.Name())
	newLen := sx("+", sx("sl_len", s.S), tlen)
	vc.assume(sx("=", sx("sl_len", r), newLen))
	vc.assume(sx("=", r, sx("ite", fits,
		sx("mk-slice", sx("sl_ref", s.S), sx("sl_off", s.S), newLen, sx("sl_cap", s.S)),
		sx("mk-slice", fr, "0", newLen, sx("sl_cap", r)))))
	vc.assume(sx(">=", sx("sl_cap", r), newLen))
	// contents
	inner := vc.fresh("appel", "(Array Int "+esort+")")
	oldInner := sx("select", cur, sx("sl_ref", s.S))
	body := sx("=", sx("select", inner, sx("sl_idx", r, "j")),
		sx("ite", sx("<", "j", sx("sl_len", s.S)),
			sx("select", oldInner, sx("sl_idx", s.S, "j")),
			strings.ReplaceAll(tread, "@K@", sx("-", "j", sx("sl_len", s.S)))))
	vc.assume(fmt.Sprintf("(forall ((j Int)) (! (=> (and (<= 0 j) (< j %s)) %s) :pattern ((select %s (sl_idx %s j)))))", newLen, body, inner, r))
	// in-place append leaves the rest of the backing array alone
	vc.assume(implies(fits, fmt.Sprintf("(forall ((j Int)) (! (=> (or (< j (+ (sl_off %s) (sl_len %s))) (>= j (+ (sl_off %s) %s))) (= (select %s j) (select %s j))) :pattern ((select %s j))))",
		s.S, s.S, s.S, newLen, inner, oldInner, inner)))
	// appending one element in place is a single store (stated outright: consequences of the two
	// quantified facts above that specifications over the backing array need as an equation)
	vc.assume(implies(and(fits, sx("=", tlen, "1")), sx("=", inner, sx("store", oldInner, sx("+", sx("sl_off", s.S), sx("sl_len", s.S)), strings.ReplaceAll(tread, "@K@", "0")))))
	vc.setAt(st, name, sortName, sx("sl_ref", r), inner)
	vc.define(v, Term{S: r, Sort: "Slice"})
}

// ---------------------------------------------------------------------------
// Special-cased library functions (atomics): direct loads and stores

func special(vc *VC, st *State, v *ssa.Call, callee *ssa.Function, args []Term, guard string, pos token.Pos, label string) bool {
	name := vc.P.specName(callee)
	switch name {
	case "atomic.AddInt64", "atomic.AddInt32":
		p := args[0]
		cur := vc.load(st, p)
		// counters are treated as mathematical integers (a 64-bit event counter does not overflow)
		vc.note("atomic counters are treated as mathematical integers (no 64-bit overflow)")
		nv := Term{S: sx("+", cur.S, args[1].S), Sort: "Int", T: cur.T}
		vc.store(st, p, nv)
		vc.atomicHook(st, "add", p, guard)
		vc.setResults(v, []Term{nv})
		return true
	case "atomic.LoadInt64", "atomic.LoadInt32":
		vc.setResults(v, []Term{vc.load(st, args[0])})
		return true
	case "atomic.StoreInt64", "atomic.StoreInt32":
		vc.store(st, args[0], args[1])
		return true
	}
	return false
}

func (vc *VC) atomicHook(st *State, op string, p Term, guard string) {}

// rangeFuncCall: `seq(yield)` drives a range-over-func loop.  The loop body is the synthetic function
// yf under its own contract; the enclosing function states an invariant over the number $k of items
// already handed to the body (clauses `rangefunc K invariant`).  Assumed of the iterator (listed in the
// evidence): it calls yield with its items seq_item(seq, 0), seq_item(seq, 1), ... in order, stops after
// seq_len(seq) items or as soon as yield returns false, and does nothing else.
func (vc *VC) rangeFuncCall(st *State, v *ssa.Call, seq Term, mc *ssa.MakeClosure, yf *ssa.Function, ysp *FuncSpec, guard string, pos token.Pos, label string) {
	vc.note("iterators (iter.Seq values) are assumed to yield their items in order, to stop when yield returns false, and to do nothing else")
	ord := 0
	fmt.Sscanf(ysp.Name[strings.LastIndex(ysp.Name, "/rangefunc")+len("/rangefunc"):], "%d", &ord)
	var invs []*Clause
	for _, c := range vc.spec.Clauses {
		if c.Kind == "rfinvariant" && c.Loop == ord {
			invs = append(invs, c)
		}
	}
	isort := vc.ss().sortOf(yf.Params[0].Type())
	itemFun := "seq_item_" + mangle(isort)
	if _, ok := vc.P.prelude.funs[itemFun]; !ok {
		vc.failf("range over an iterator of %s: no %s in the prelude", yf.Params[0].Type(), itemFun)
	}
	vc.P.prelude.use(vc, "seq_len")
	vc.P.prelude.use(vc, itemFun)
	n := sx("seq_len", seq.S)
	vc.assume(sx(">=", n, "0"))
	// existed(x): x existed when the range statement started (everything this function has allocated
	// or named so far, and everything that existed when it was entered)
	existed := vc.existedPredicate("rf_existed")
	bindings := map[string]Term{}
	for i, f := range yf.FreeVars {
		if i < len(mc.Bindings) {
			bindings["&"+f.Name()] = vc.val(mc.Bindings[i])
			bindings[fmt.Sprintf("&#%d", i)] = vc.val(mc.Bindings[i])
		}
	}
	mkEnv := func(s *State, k string) *Env {
		e := vc.selfEnv(s, nil)
		vc.bindLocalsAt(e, vc.curBlock, true)
		for _, lj := range vc.loops {
			if !lj.blocks[vc.curBlock] {
				continue
			}
			for _, in := range lj.header.Instrs {
				phi, ok := in.(*ssa.Phi)
				if !ok {
					break
				}
				if phi.Comment == "rangeindex" {
					if t, ok := vc.vals[phi]; ok {
						e.vars[fmt.Sprintf("$k%d", lj.ordinal)] = Term{S: sx("+", t.S, "1"), Sort: "Int", T: types.Typ[types.Int]}
					}
				}
			}
		}
		e.vars["$k"] = Term{S: k, Sort: "Int", T: types.Typ[types.Int]}
		e.vars["$n"] = Term{S: n, Sort: "Int", T: types.Typ[types.Int]}
		e.vars["$seq"] = seq
		e.vars["$existed"] = Term{S: existed, Sort: "Pred"}
		if j, ok := bindings["&#0"]; ok {
			e.vars["$jump"] = vc.load(s, j)
		}
		return e
	}
	inv := func(s *State, k string) []string {
		var out []string
		e := mkEnv(s, k)
		for _, c := range invs {
			f, err := e.boolean(c.Expr)
			if err != nil {
				panic(execErr(vc.clauseErr(c, err).Error()))
			}
			out = append(out, f)
		}
		return out
	}
	kind := fmt.Sprintf("rangefunc%d", ord)
	// established before the first item
	for i, f := range inv(st, "0") {
		vc.oblige(kind+".established", invs[i].label(), invs[i].Props, guard, f, "invariant holds before the first item: "+invs[i].Text, pos)
	}
	// existed(x): x existed when the range statement started (everything this function has allocated
	// or named so far, and everything that existed when it was entered)
	// the effect of any number of earlier iterations: the captured variables the body may write are
	// arbitrary; locations it reaches through those variables (the elements of a slice it grows, ...)
	// are arbitrary except in objects that existed when the range statement started -- each iteration
	// is obliged (below) to write such locations only in objects created since.
	var dynamic []modTarget
	dynAlloc := ""
	havocFrame := func(s *State) {
		menv := &Env{vc: vc, st: s, old: s, vars: map[string]Term{}, pkg: vc.pkgOf(yf)}
		for k, t := range bindings {
			menv.vars[k] = t
		}
		targets, all, foreign := vc.modifiesTargets3(ysp, menv)
		if all {
			vc.havocAll(s, "")
			return
		}
		if foreign {
			vc.havocForeign(s, "")
		}
		dynamic = nil
		for _, t := range targets {
			switch {
			case t.idx == "":
				vc.havoc(s, t.name, t.sort)
			case rfDynamicIndex(t.idx, targets):
				dynamic = append(dynamic, t)
			default:
				parts := splitSortArgs(t.sort)
				vc.setAt(s, t.name, t.sort, t.idx, vc.havocValue(parts[1]))
			}
		}
		for _, t := range dynamic {
			if !strings.HasPrefix(t.sort, "(Array Int ") {
				vc.havoc(s, t.name, t.sort)
				continue
			}
			old := vc.get(s, t.name, t.sort)
			nw := vc.fresh(t.name, t.sort)
			s.vals[t.name] = nw
			// for the analysis of enclosing loops these are writes to objects created inside the loop
			// (obliged below: rangefuncK.frame)
			if dynAlloc == "" {
				dynAlloc = vc.allocRef("rf_objects_" + fmt.Sprint(ord))
			}
			vc.markWrittenAt(t.name, dynAlloc)
			vc.assume(fmt.Sprintf("(forall ((x Int)) (! (=> (%s x) (= (select %s x) (select %s x))) :pattern ((select %s x))))", existed, nw, old, nw))
		}
	}
	// one arbitrary item
	pre := st.clone(vc)
	step := pre.clone(vc)
	havocFrame(step)
	k0 := vc.fresh("rf_k", "Int")
	stepGuard := vc.fresh("rf_step", "Bool")
	vc.assume(implies(stepGuard, and(guard, sx("<=", "0", k0), sx("<", k0, n))))
	for _, f := range inv(step, k0) {
		vc.assumeG(stepGuard, f)
	}
	item := Term{S: sx(itemFun, seq.S, k0), Sort: isort, T: yf.Params[0].Type()}
	vc.assume(vc.ss().typeInv(item.T, item.S, 0))
	var names []string
	for i, p := range yf.Params {
		nm := p.Name()
		if i < len(ysp.Params) && ysp.Params[i] != "" {
			nm = ysp.Params[i]
		}
		names = append(names, nm)
	}
	// what this iteration writes through the captured variables lies in objects created since the range
	// statement started (this is what keeps everything older unchanged across the iterations)
	{
		menv := &Env{vc: vc, st: step, old: step, vars: map[string]Term{}, pkg: vc.pkgOf(yf)}
		for k, t := range bindings {
			menv.vars[k] = t
		}
		targets, _, _ := vc.modifiesTargets3(ysp, menv)
		for _, t := range targets {
			if t.idx != "" && rfDynamicIndex(t.idx, targets) && strings.HasPrefix(t.sort, "(Array Int ") {
				vc.oblige(kind+".frame", t.name, vc.nopanicProps(), stepGuard, or(sx("=", t.idx, "0"), not(sx(existed, t.idx))),
					"the loop body writes "+t.name+" through its captured variables only in objects created since the range statement started", pos)
			}
		}
	}
	// the body's contract: precondition checked, frame havocked, postcondition assumed
	saveGuard := vc.curGuard
	vc.curGuard = stepGuard
	res := vc.applyContractRes(step, ysp, names, []Term{item}, yf.Signature, stepGuard, pos, label+" (one item)", vc.pkgOf(yf), bindings)
	vc.curGuard = saveGuard
	r := res[0].S
	for i, f := range inv(step, sx("+", k0, "1")) {
		vc.oblige(kind+".preserved", invs[i].label(), invs[i].Props, and(stepGuard, r), f, "invariant preserved by the loop body: "+invs[i].Text, pos)
	}
	// afterwards: either the body ended the loop on some item, or every item has been handed over
	done := pre.clone(vc)
	havocFrame(done)
	early := vc.fresh("rf_early", "Bool")
	doneGuard := and(guard, not(early))
	for _, f := range inv(done, n) {
		vc.assumeG(doneGuard, f)
	}
	vc.assume(implies(and(guard, early), and(stepGuard, not(r))))
	merged := vc.merge([]parentEdge{{and(guard, early), step}, {doneGuard, done}})
	merged.defers = st.defers
	*st = *merged
}

// rfDynamicIndex: does the index of a frame item of a loop body depend on something the body itself may
// write (the slice a captured variable holds, a field of an object)?  Then earlier iterations may have moved
// it and the item is treated through the dynamic frame.  An index read from a captured variable the body
// never assigns (its cell is not in the body's frame) names the same object in every iteration.
var rfCellRead = regexp.MustCompile(`\(select (cell_[A-Za-z0-9_]+)[@!][A-Za-z0-9_!@]* ([^() ]+)\)`)

func rfDynamicIndex(idx string, targets []modTarget) bool {
	if strings.Contains(idx, "(select F_") {
		return true
	}
	if !strings.Contains(idx, "(select cell_") {
		return false
	}
	ms := rfCellRead.FindAllStringSubmatch(idx, -1)
	if len(ms) != strings.Count(idx, "(select cell_") {
		return true
	}
	for _, m := range ms {
		for _, t := range targets {
			if t.name == m[1] && (t.idx == "" || t.idx == m[2]) {
				return true
			}
		}
	}
	return false
}

// existedBeforeCall: when the callee's contract speaks of fresh()/isold(), these refer to the moment of
// the call: a per-call predicate that holds of everything that existed when this function was entered,
// of every allocation this function has made so far and of every reference it has named so far.
// (References reachable only through heap locations not yet read are not covered: fresh() then gives
// no distinctness from them, which is the safe direction.)
func (vc *VC) existedBeforeCall(spec *FuncSpec) string {
	uses := false
	for _, c := range spec.Clauses {
		if c.Kind == "ensures" || c.Kind == "requires" || c.Kind == "modifies" {
			if strings.Contains(c.Text, "fresh(") || strings.Contains(c.Text, "isold(") || strings.Contains(c.Text, "refsFresh(") {
				uses = true
			}
		}
	}
	if !uses {
		for _, sfn := range vc.P.spec.SpecFuns {
			_ = sfn
		}
		return ""
	}
	return vc.existedPredicate("pre_call")
}

// existedPredicate declares a predicate that holds of everything that existed when this function was
// entered, of every allocation it has made so far and of every reference it has named so far.
func (vc *VC) existedPredicate(prefix string) string {
	vc.callN++
	p := fmt.Sprintf("%s_%d", prefix, vc.callN)
	vc.declareFun(p, []string{"Int"}, "Bool")
	// what existed at an earlier point of the execution still exists (only sound along one path: the
	// predicates are chained in the order the generator meets them, which follows the control flow
	// because blocks are executed in topological order and a later predicate is only ever used on
	// paths through its own block)
	if vc.lastExisted != "" && vc.lastExistedBlock != nil && vc.curBlock != nil && vc.lastExistedBlock.Dominates(vc.curBlock) {
		vc.assume(fmt.Sprintf("(forall ((x Int)) (! (=> (%s x) (%s x)) :pattern ((%s x)) :pattern ((%s x))))", vc.lastExisted, p, vc.lastExisted, p))
	}
	vc.lastExisted, vc.lastExistedBlock = p, vc.curBlock
	// what existed when an enclosing loop started exists now
	if vc.curBlock != nil {
		for _, li := range vc.loops {
			if li.blocks[vc.curBlock] {
				vc.declarePre(li.ordinal)
				pl := fmt.Sprintf("pre_L%d", li.ordinal)
				vc.assume(fmt.Sprintf("(forall ((x Int)) (! (=> (%s x) (%s x)) :pattern ((%s x)) :pattern ((%s x))))", pl, p, pl, p))
			}
		}
	}
	vc.assume(fmt.Sprintf("(forall ((x Int)) (! (=> (is_old x) (%s x)) :pattern ((%s x))))", p, p))
	vc.assume(sx(p, "0"))
	for _, a := range vc.allocs {
		vc.assume(sx(p, a))
	}
	var names []string
	for v, t := range vc.vals {
		if t.Loc != nil {
			continue
		}
		switch t.Sort {
		case "Int":
			switch types.Unalias(v.Type()).Underlying().(type) {
			case *types.Pointer, *types.Map, *types.Chan, *types.Signature:
				names = append(names, sx(p, t.S))
			}
		case "Slice":
			names = append(names, sx(p, sx("sl_ref", t.S)))
		case "Iface":
			names = append(names, sx(p, sx("if_val", t.S)))
		}
	}
	sort.Strings(names)
	for _, n := range names {
		vc.assume(n)
	}
	return p
}

// havocValue: an arbitrary value of the given sort; strings and slices are well formed (every Go value is)
func (vc *VC) havocValue(sortName string) string {
	f := vc.fresh("hv", sortName)
	switch sortName {
	case "Slice":
		vc.assume(sx("slice_wf", f))
	case "Str":
		vc.assume(sx("str_wf", f))
	}
	return f
}

// ---------------------------------------------------------------------------
// Inlining of small helpers without contract
//
// A function of the repository that has no contract, no loop, no defer/go/select/recover and no captured
// variables is executed in place at its call site (up to three levels deep): its instructions generate the
// same obligations they would generate in the caller's body, its return paths are merged.  This keeps a
// refactoring that moves a few statements into a helper from turning into "callee without contract", and
// makes a change hidden in such a helper visible to the caller's postconditions.

const maxInlineDepth = 3
const maxInlineBlocks = 80

func (vc *VC) inlinable(f *ssa.Function) bool {
	if f == nil || len(f.Blocks) == 0 || len(f.Blocks) > maxInlineBlocks || len(f.FreeVars) != 0 || f.Recover != nil {
		return false
	}
	if f.Pkg == nil || !strings.HasPrefix(f.Pkg.Pkg.Path(), logPath) {
		return false
	}
	if vc.inlineDepth >= maxInlineDepth {
		return false
	}
	for _, g := range vc.inlineStack {
		if g == f {
			return false
		}
	}
	// acyclic
	color := map[*ssa.BasicBlock]int{}
	var dfs func(b *ssa.BasicBlock) bool
	dfs = func(b *ssa.BasicBlock) bool {
		color[b] = 1
		for _, s := range b.Succs {
			if color[s] == 1 {
				return false
			}
			if color[s] == 0 && !dfs(s) {
				return false
			}
		}
		color[b] = 2
		return true
	}
	if !dfs(f.Blocks[0]) {
		return false
	}
	for _, b := range f.Blocks {
		for _, in := range b.Instrs {
			switch x := in.(type) {
			case *ssa.Defer, *ssa.RunDefers, *ssa.Go, *ssa.Range, *ssa.Next:
				return false
			case *ssa.Call:
				if bi, ok := x.Call.Value.(*ssa.Builtin); ok && bi.Name() == "recover" {
					return false
				}
			}
		}
	}
	return true
}

func (vc *VC) tryInline(st *State, v *ssa.Call, callee *ssa.Function, args []Term, guard string, pos token.Pos) bool {
	if !vc.inlinable(callee) || len(args) != len(callee.Params) {
		return false
	}
	vc.inlineN++
	tag := fmt.Sprintf("in%d", vc.inlineN)
	saveTag, saveGuard := vc.inlineTag, vc.curGuard
	vc.inlineTag = tag
	vc.inlineDepth++
	vc.inlineStack = append(vc.inlineStack, callee)
	defer func() {
		vc.inlineTag, vc.curGuard = saveTag, saveGuard
		vc.inlineDepth--
		vc.inlineStack = vc.inlineStack[:len(vc.inlineStack)-1]
	}()
	vc.note("call of " + vc.P.specName(callee) + " (no contract, no loop): executed in place")
	for i, p := range callee.Params {
		a := args[i]
		if a.T == nil {
			a.T = p.Type()
		}
		vc.vals[p] = a
	}
	// topological order of the (acyclic) body
	var order []*ssa.BasicBlock
	seen := map[*ssa.BasicBlock]bool{}
	var visit func(b *ssa.BasicBlock)
	visit = func(b *ssa.BasicBlock) {
		seen[b] = true
		for _, s := range b.Succs {
			if !seen[s] {
				visit(s)
			}
		}
		order = append(order, b)
	}
	visit(callee.Blocks[0])
	for i, j := 0, len(order)-1; i < j; i, j = i+1, j-1 {
		order[i], order[j] = order[j], order[i]
	}
	blockR := map[*ssa.BasicBlock]string{}
	exitSt := map[*ssa.BasicBlock]*State{}
	edgeCond := func(p, s *ssa.BasicBlock) string {
		r := blockR[p]
		if ifi, ok := p.Instrs[len(p.Instrs)-1].(*ssa.If); ok {
			c := vc.val(ifi.Cond).S
			if p.Succs[0] == s && p.Succs[1] == s {
				return r
			}
			if p.Succs[0] == s {
				return and(r, c)
			}
			return and(r, not(c))
		}
		return r
	}
	type retPath struct {
		cond string
		st   *State
		res  []Term
	}
	var rets []retPath
	for _, b := range order {
		rname := fmt.Sprintf("R_%s_%d", tag, b.Index)
		vc.declare(rname, "Bool")
		var bst *State
		if b == callee.Blocks[0] {
			bst = st.clone(vc)
			vc.assume(sx("=", rname, guard))
		} else {
			var edges []parentEdge
			var conds []string
			for _, p := range b.Preds {
				if _, ok := exitSt[p]; !ok {
					continue
				}
				c := edgeCond(p, b)
				edges = append(edges, parentEdge{c, exitSt[p]})
				conds = append(conds, c)
			}
			if len(edges) == 0 {
				continue
			}
			vc.assume(sx("=", rname, or(conds...)))
			bst = vc.merge(edges)
			bst.defers = st.defers
		}
		blockR[b] = rname
		vc.curGuard = rname
		for _, in := range b.Instrs {
			phi, ok := in.(*ssa.Phi)
			if !ok {
				break
			}
			t := vc.bindFresh(phi, rname)
			for i, p := range b.Preds {
				if _, ok := exitSt[p]; !ok {
					continue
				}
				ev := vc.val(phi.Edges[i])
				vc.assume(implies(edgeCond(p, b), sx("=", t.S, ev.S)))
			}
		}
		returned := false
		for _, in := range b.Instrs {
			if _, ok := in.(*ssa.Phi); ok {
				continue
			}
			if r, ok := in.(*ssa.Return); ok {
				var res []Term
				for _, x := range r.Results {
					res = append(res, vc.val(x))
				}
				rets = append(rets, retPath{rname, bst, res})
				returned = true
				break
			}
			vc.instr(bst, in, rname)
		}
		if !returned {
			exitSt[b] = bst
		}
	}
	if len(rets) == 0 {
		// the helper never returns (it panics on every path): nothing follows the call
		vc.assume(not(guard))
		vc.setResults(v, vc.freshResults(callee.Signature, "r"))
		return true
	}
	var edges []parentEdge
	for _, r := range rets {
		edges = append(edges, parentEdge{r.cond, r.st})
	}
	merged := vc.merge(edges)
	merged.defers = st.defers
	*st = *merged
	if callee.Signature.Results().Len() > 0 {
		res := vc.freshResults(callee.Signature, "r_"+tag)
		for _, r := range rets {
			for i := range res {
				if i < len(r.res) {
					rv := r.res[i]
					if rv.Sort != res[i].Sort {
						rv, _ = (&Env{vc: vc, st: st, old: st, vars: map[string]Term{}, pkg: vc.pkgOf(callee)}).coerceNil(rv, res[i])
					}
					if rv.Sort == res[i].Sort {
						vc.assume(implies(r.cond, sx("=", res[i].S, rv.S)))
					}
				}
			}
		}
		vc.setResults(v, res)
	}
	return true
}
