package main

import (
	"fmt"
	"go/token"
	"go/types"
	"regexp"
	"sort"
	"strings"

	"golang.org/x/tools/go/ssa"
)

// ---------------------------------------------------------------------------
// Verification-condition builder for one function

type Obligation struct {
	Name   string
	Kind   string
	Props  []string
	Guard  string
	Goal   string
	Pos    string
	Text   string // human-readable text of what is being proved
	Seq    int    // position in vc.items
	Func   string
	Canary bool   // must be sat (vacuity guard)
	Static string // "" | "holds" | "fails": decided syntactically by the generator, no solver involved
	// filled by the solver stage
	Result  string // unsat sat unknown timeout error
	Solver  string
	Millis  int64
	Model   map[string]string
	Output  string
	ReplayQ []string // terms whose values are requested from the model
	Skip    bool     // not part of the property being checked: neither proved nor assumed in this run
	blk     *ssa.BasicBlock
}

type item struct {
	assume string
	obl    *Obligation
	blk    *ssa.BasicBlock // block being executed when the fact was recorded (nil: function-level)
}

type deferred struct {
	call *ssa.CallCommon
	args []Term
	pos  token.Pos
}

type parentEdge struct {
	cond string
	st   *State
}

// State maps state variables (heap arrays, globals, ghost variables) to their
// current SMT term.  Variables are discovered lazily: a variable absent from
// vals denotes its value at the state's epoch (or is merged from the parents).
type State struct {
	vals    map[string]string
	epoch   int
	parents []parentEdge
	defers  []deferred
	id      int
}

type VC struct {
	P                *Program
	fn               *ssa.Function
	spec             *FuncSpec
	name             string
	decls            []string
	declared         map[string]bool
	items            []item
	obls             []*Obligation
	vals             map[ssa.Value]Term
	tuples           map[ssa.Value][]Term
	stateSort        map[string]string
	freshN           int
	callN            int
	alwaysDone       map[*ssa.Function]bool
	loopKeep         map[*loopInfo]string
	lastExisted      string
	lastExistedBlock *ssa.BasicBlock
	epochN           int
	stateN           int
	entry            *State
	notes            []string // unsupported constructs encountered (over-approximated)
	discover         bool
	written          map[*ssa.BasicBlock]map[string]map[string]bool
	writtenFrozen    map[*ssa.BasicBlock]map[string]map[string]bool
	protectedNow     bool                          // a recovering deferred handler is registered: panics of the current instruction are its business
	deferBlock       *ssa.BasicBlock               // block registering that handler
	panicFrom        *State                        // state right after the registration (deferred calls recorded)
	panicStable      []*ssa.Alloc                  // captured locals nothing writes after the registration
	deferGuard       string                        // reachability of the registration
	privateCells     []*ssa.Alloc                  // locals no callee without contract can reach
	loopFrame        map[*loopInfo]map[string]bool // maps whose writes inside the loop must hit objects allocated by this call
	curBlock         *ssa.BasicBlock
	curGuard         string
	hasAlloc         bool
	lets             map[string]Term
	panicsIff        string // translated panics_iff condition over the entry state ("" when absent)
	hasPanicsIff     bool
	usedExterns      map[string]bool
	usedSpecs        map[string]bool
	allocs           []string
	funDecls         map[string]bool
	preamble         []string // axioms instantiated for this VC (spec functions etc.)
	recInfo          map[string]*recInfo
	replayKeys       []string
	reach            map[*ssa.BasicBlock]map[*ssa.BasicBlock]bool // reachability in the CFG without back edges
	allocBlock       map[string]*ssa.BasicBlock                   // allocation constants (and values defined from them) -> block
	loops            []*loopInfo
	loopHead         map[*loopInfo]*State
	symsUsed         map[string]bool   // prelude symbols the contracts of this function mention
	symsFrozen       map[string]bool   // ... as found by the discovery pass
	renamed          map[string]string // local named by the contract -> local of the function it is read as
	localNameSet     map[string]bool
	inlineTag        string // non-empty while a helper without contract is executed in place
	inlineN          int
	inlineDepth      int
	inlineStack      []*ssa.Function
	knownVars        map[string]string    // state variables (name -> sort) the discovery pass met
	globalPkg        map[string]string    // state variable of a package-level variable -> package path
	ssaByName        map[string]ssa.Value // SMT constant of a defined SSA value -> the value
	staticV          map[string]ssa.Value // SMT constant name -> SSA value, for the whole function
	knownInvariant   map[string]bool      // index terms established as loop-invariant
}

func (vc *VC) fresh(prefix, sort string) string {
	vc.freshN++
	n := fmt.Sprintf("%s!%d", prefix, vc.freshN)
	vc.declare(n, sort)
	return n
}

func (vc *VC) declare(name, sort string) {
	if vc.declared[name] {
		return
	}
	vc.declared[name] = true
	vc.decls = append(vc.decls, fmt.Sprintf("(declare-const %s %s)", name, sort))
}

func (vc *VC) declareFun(name string, args []string, res string) {
	if vc.declared[name] {
		return
	}
	vc.declared[name] = true
	vc.decls = append(vc.decls, fmt.Sprintf("(declare-fun %s (%s) %s)", name, strings.Join(args, " "), res))
}

func (vc *VC) assume(f string) {
	if f == "true" || f == "" {
		return
	}
	vc.items = append(vc.items, item{assume: f, blk: vc.curBlock})
}

func (vc *VC) assumeG(guard, f string) { vc.assume(implies(guard, f)) }

func (vc *VC) oblige(kind, label string, props []string, guard, goal, text string, pos token.Pos) *Obligation {
	name := vc.name + "#" + kind
	if label != "" {
		name += "[" + label + "]"
	}
	// make names unique
	base := name
	for i := 2; ; i++ {
		dup := false
		for _, o := range vc.obls {
			if o.Name == name {
				dup = true
				break
			}
		}
		if !dup {
			break
		}
		name = fmt.Sprintf("%s~%d", base, i)
	}
	if len(props) == 0 {
		props = vc.spec.Props
	}
	if vc.protectedNow && strings.HasPrefix(kind, "nopanic") {
		// a panic here is caught by the registered handler: covered by the panic path (see panicPath)
		return &Obligation{Name: name, Kind: kind, Props: props, Guard: guard, Goal: "true", Text: text, Func: vc.name, Skip: true}
	}
	o := &Obligation{Name: name, Kind: kind, Props: props, Guard: guard, Goal: goal, Text: text, Func: vc.name}
	if pos.IsValid() {
		p := vc.P.fset.Position(pos)
		o.Pos = fmt.Sprintf("%s:%d", shortPath(p.Filename), p.Line)
	}
	o.Seq = len(vc.items)
	o.blk = vc.curBlock
	vc.items = append(vc.items, item{obl: o, blk: vc.curBlock})
	vc.obls = append(vc.obls, o)
	return o
}

func shortPath(p string) string {
	return strings.TrimPrefix(p, "/repo/")
}

// ---------------------------------------------------------------------------
// State

func (vc *VC) newState() *State {
	vc.stateN++
	return &State{vals: map[string]string{}, id: vc.stateN}
}

func (st *State) clone(vc *VC) *State {
	n := vc.newState()
	n.epoch = st.epoch
	n.parents = st.parents
	for k, v := range st.vals {
		n.vals[k] = v
	}
	n.defers = append([]deferred(nil), st.defers...)
	return n
}

func (vc *VC) noteSort(name, sort string) {
	if s, ok := vc.stateSort[name]; ok && s != sort {
		panic(fmt.Sprintf("state variable %s used with sorts %s and %s", name, s, sort))
	}
	vc.stateSort[name] = sort
}

// get returns the current term of state variable name.
func (vc *VC) get(st *State, name, sort string) string {
	vc.noteSort(name, sort)
	if v, ok := st.vals[name]; ok {
		return v
	}
	if len(st.parents) == 0 {
		c := fmt.Sprintf("%s@%d", name, st.epoch)
		vc.declare(c, sort)
		st.vals[name] = c
		return c
	}
	var vs []string
	same := true
	for _, p := range st.parents {
		v := vc.get(p.st, name, sort)
		vs = append(vs, v)
		if v != vs[0] {
			same = false
		}
	}
	if same {
		st.vals[name] = vs[0]
		return vs[0]
	}
	c := vc.fresh(name+"@m", sort)
	// merge definitions belong to the join, not to whichever block first asked for the value:
	// they are recorded as function-level facts so that no query loses them
	cb := vc.curBlock
	vc.curBlock = nil
	for i, p := range st.parents {
		vc.assume(implies(p.cond, sx("=", c, vs[i])))
	}
	vc.curBlock = cb
	st.vals[name] = c
	return c
}

func (vc *VC) set(st *State, name, sort, term string) {
	vc.noteSort(name, sort)
	c := vc.fresh(name, sort)
	vc.assume(sx("=", c, term))
	st.vals[name] = c
	vc.markWritten(name)
}

func (vc *VC) havoc(st *State, name, sort string) string {
	vc.noteSort(name, sort)
	c := vc.fresh(name, sort)
	st.vals[name] = c
	vc.markWritten(name)
	return c
}

func (vc *VC) havocAll(st *State, why string) {
	// whether the goroutine is panicking is not something a callee changes behind our back
	keepPanicking := ""
	if _, ok := vc.P.spec.GhostVars["panicking"]; ok {
		keepPanicking = vc.get(st, "G_panicking", "Iface")
	}
	defer func() {
		if keepPanicking != "" {
			st.vals["G_panicking"] = keepPanicking
		}
	}()
	vc.epochN++
	st.vals = map[string]string{}
	st.parents = nil
	st.epoch = vc.epochN
	vc.markWritten("*")
	if why != "" {
		vc.note(why)
	}
}

// foreignVar: does the state variable model state outside the package of the function under
// verification -- a package-level variable of another package, or a ghost variable declared in the
// externs file (operating system, standard library)?  Heap arrays are never foreign: what a callee can
// reach of them is decided by the references it is given.
func (vc *VC) foreignVar(name string) bool {
	if strings.HasPrefix(name, "g_") {
		if p, ok := vc.globalPkg[name]; ok {
			own := vc.P.logPkg.Types.Path()
			if vc.fn != nil {
				own = vc.pkgOf(vc.fn).Path()
			}
			return p != own
		}
		return false
	}
	if strings.HasPrefix(name, "G_") {
		n := strings.TrimPrefix(name, "G_")
		if n == "panicking" {
			return false
		}
		return vc.P.spec.GhostExtern[n]
	}
	return false
}

// havocForeign: a callee of another package that is handed no reference (only strings, numbers,
// booleans) cannot reach any object or package-level variable of this package -- this package never
// stores its references into another package's variables (checked when the program is loaded) -- so
// only state outside this package becomes arbitrary.
func (vc *VC) havocForeign(st *State, why string) {
	keep := map[string]string{}
	all := map[string]string{}
	for n, srt := range vc.knownVars {
		all[n] = srt
	}
	for n, srt := range vc.stateSort {
		all[n] = srt
	}
	for _, n := range sortedKeys(all) {
		if !vc.foreignVar(n) {
			keep[n] = vc.get(st, n, all[n])
		} else {
			vc.markWritten(n)
		}
	}
	vc.epochN++
	st.vals = keep
	st.parents = nil
	st.epoch = vc.epochN
	if why != "" {
		vc.note(why)
	}
}

func (vc *VC) note(s string) {
	for _, n := range vc.notes {
		if n == s {
			return
		}
	}
	vc.notes = append(vc.notes, s)
}

func (vc *VC) markWritten(name string) { vc.markWrittenAt(name, "") }

// markWrittenAt records that the current block writes state variable name at
// index idx ("" = anywhere).
func (vc *VC) markWrittenAt(name, idx string) {
	if vc.curBlock == nil {
		return
	}
	m := vc.written[vc.curBlock]
	if m == nil {
		m = map[string]map[string]bool{}
		vc.written[vc.curBlock] = m
	}
	if m[name] == nil {
		m[name] = map[string]bool{}
	}
	m[name][idx] = true
	// loops whose frame rests on "the body only writes objects of this call" (see loopHeader)
	if !vc.discover && idx != "" {
		for li, ks := range vc.loopFrame {
			if !ks[name] || !li.blocks[vc.curBlock] || vc.invariantIn(li, idx) {
				continue
			}
			if ab, ok := vc.allocBlock[idx]; ok && li.blocks[ab] {
				continue
			}
			vc.oblige(fmt.Sprintf("loop%d.frame", li.ordinal), name, nil, vc.curGuard, or(sx("=", idx, "0"), not(sx("is_old", idx))),
				"the loop writes "+name+" only at objects allocated by this call (the caller's objects keep their values)", token.NoPos)
		}
	}
}

// setAt updates array variable name at index idx.
func (vc *VC) setAt(st *State, name, sort, idx, val string) {
	vc.noteSort(name, sort)
	cur := vc.get(st, name, sort)
	c := vc.fresh(name, sort)
	vc.assume(sx("=", c, sx("store", cur, idx, val)))
	st.vals[name] = c
	vc.markWrittenAt(name, idx)
}

var identRe = regexp.MustCompile(`[A-Za-z_$!@][A-Za-z0-9_$!@.\-]*`)

// invariantIn: does term t only mention parameters, captured variables, globals and SSA values
// defined outside loop li (an SSA value never changes once defined)?
func (vc *VC) invariantIn(li *loopInfo, t string) bool {
	if vc.knownInvariant[t] {
		return true
	}
	if li != nil && vc.stableCellLoad(li, t) {
		return true
	}
	for _, id := range identRe.FindAllString(t, -1) {
		if v, ok := vc.ssaByName[id]; ok && li != nil {
			if in, isInstr := v.(ssa.Instruction); isInstr && in.Block() != nil && !li.blocks[in.Block()] {
				continue
			}
		}
		if !loopInvariantTerm(id) {
			return false
		}
	}
	return true
}

// stableCellLoad: t reads a variable that lives in a cell allocated before loop li (a captured or
// address-taken local) which no instruction of the loop writes: the same value in every iteration,
// whatever version of the cell array the term names.
var cellLoadRe = regexp.MustCompile(`^\(select (cell_[A-Za-z0-9_]+)[@!][A-Za-z0-9_!@]* ([^() ]+)\)$`)

func (vc *VC) stableCellLoad(li *loopInfo, t string) bool {
	m := cellLoadRe.FindStringSubmatch(t)
	if m == nil {
		return false
	}
	cn, ref := m[1], m[2]
	if v, ok := vc.ssaByName[ref]; ok {
		if a, isAlloc := v.(*ssa.Alloc); isAlloc {
			if at, ok := vc.vals[a]; ok {
				ref = at.S
			}
		}
	}
	ab, ok := vc.allocBlock[ref]
	if !ok || li.blocks[ab] {
		return false
	}
	wsrc := vc.written
	if vc.writtenFrozen != nil {
		wsrc = vc.writtenFrozen
	}
	for lb := range li.blocks {
		if wsrc[lb]["*"] != nil {
			return false
		}
		for ix2 := range wsrc[lb][cn] {
			if ix2 == "" || ix2 == ref || ix2 == m[2] {
				return false
			}
			if _, isAlloc := vc.allocBlock[ix2]; !isAlloc && !loopInvariantTerm(ix2) {
				if v, ok := vc.ssaByName[ix2]; ok {
					if _, isA := v.(*ssa.Alloc); isA {
						continue
					}
				}
				return false
			}
		}
	}
	return true
}

// loopInvariantTerm: does term t only mention parameters, captured variables and globals?
func loopInvariantTerm(t string) bool {
	for _, id := range identRe.FindAllString(t, -1) {
		switch {
		case strings.HasPrefix(id, "p_"), strings.HasPrefix(id, "fv_"), strings.HasPrefix(id, "gref_"),
			strings.HasPrefix(id, "sub_"), strings.HasPrefix(id, "fn_"), strings.HasPrefix(id, "let_"),
			id == "if_val", id == "if_tag", id == "sl_ref", id == "sl_len", id == "sl_off", id == "sl_cap",
			id == "select", strings.HasSuffix(id, "@0"):
		default:
			return false
		}
	}
	return true
}

func (vc *VC) merge(edges []parentEdge) *State {
	if len(edges) == 1 {
		return edges[0].st.clone(vc)
	}
	n := vc.newState()
	n.parents = edges
	// defers must agree
	n.defers = append([]deferred(nil), edges[0].st.defers...)
	for _, e := range edges[1:] {
		if len(e.st.defers) != len(n.defers) {
			vc.note("defer stacks differ at a join (unsupported)")
		}
	}
	return n
}

// ---------------------------------------------------------------------------
// Heap model helpers

func (vc *VC) ss() *Sorts { return vc.P.ss }

func (vc *VC) fieldVar(structT types.Type, idx int) (name, sort string, ft types.Type) {
	s, _ := isStruct(structT)
	f := s.Field(idx)
	fname := f.Name()
	if fname == "_" {
		fname = fmt.Sprintf("blank%d", idx)
	}
	return "F_" + vc.ss().structKey(structT) + "_" + fname, "(Array Int " + vc.ss().sortOf(f.Type()) + ")", f.Type()
}

func (vc *VC) subFun(structT types.Type, idx int) string {
	s, _ := isStruct(structT)
	fname := s.Field(idx).Name()
	if fname == "_" {
		fname = fmt.Sprintf("blank%d", idx)
	}
	n := "sub_" + vc.ss().structKey(structT) + "_" + fname
	if !vc.declared[n] {
		vc.declareFun(n, []string{"Int"}, "Int")
		inv := "inv_" + n
		vc.declareFun(inv, []string{"Int"}, "Int")
		vc.preamble = append(vc.preamble,
			fmt.Sprintf("(assert (forall ((x Int)) (! (and (= (%s (%s x)) x) (=> (> x 0) (> (%s x) 0)) (=> (> x 0) (= (sub_kind (%s x)) %d)) (= (is_old (%s x)) (is_old x))) :pattern ((%s x)))))", inv, n, n, n, vc.ss().typeTag(types.NewPointer(structT))*1000+idx+1, n, n))
	}
	return n
}

// valueStruct: struct types stored as whole values inside their parent object
// (no method has a pointer receiver, so their address never needs to be a
// first-class pointer).  Everything else is a sub-object with its own reference.
func valueStruct(t types.Type) bool {
	t = types.Unalias(t)
	if _, ok := isStruct(t); !ok {
		return false
	}
	if n, ok := t.(*types.Named); ok {
		if n.Obj().Pkg() != nil && n.Obj().Pkg().Path() == "time" && n.Obj().Name() == "Time" {
			return true
		}
		for i := 0; i < n.NumMethods(); i++ {
			sig := n.Method(i).Type().(*types.Signature)
			if _, isPtr := sig.Recv().Type().(*types.Pointer); isPtr {
				return false
			}
		}
		s, _ := isStruct(t)
		for i := 0; i < s.NumFields(); i++ {
			if _, ok := isStruct(s.Field(i).Type()); ok && !valueStruct(s.Field(i).Type()) {
				return false
			}
		}
		return true
	}
	return false
}

func subObject(t types.Type) bool {
	_, ok := isStruct(t)
	return ok && !valueStruct(t)
}

// readField reads field idx of the struct object at ref.
func (vc *VC) readField(st *State, ref string, structT types.Type, idx int) Term {
	s, _ := isStruct(structT)
	ft := s.Field(idx).Type()
	if subObject(ft) {
		return vc.loadStruct(st, sx(vc.subFun(structT, idx), ref), ft)
	}
	name, sort, _ := vc.fieldVar(structT, idx)
	return Term{S: sx("select", vc.get(st, name, sort), ref), Sort: vc.ss().sortOf(ft), T: ft}
}

func (vc *VC) writeField(st *State, ref string, structT types.Type, idx int, val string) {
	s, _ := isStruct(structT)
	ft := s.Field(idx).Type()
	if subObject(ft) {
		vc.storeStruct(st, sx(vc.subFun(structT, idx), ref), ft, val)
		return
	}
	name, sort, _ := vc.fieldVar(structT, idx)
	vc.setAt(st, name, sort, ref, val)
}

func (vc *VC) loadStruct(st *State, ref string, structT types.Type) Term {
	s, _ := isStruct(structT)
	sortName := vc.ss().sortOf(structT)
	if s.NumFields() == 0 {
		return Term{S: "mk_" + sortName, Sort: sortName, T: structT}
	}
	var fs []string
	for i := 0; i < s.NumFields(); i++ {
		fs = append(fs, vc.readField(st, ref, structT, i).S)
	}
	return Term{S: sx("mk_"+sortName, fs...), Sort: sortName, T: structT}
}

func (vc *VC) storeStruct(st *State, ref string, structT types.Type, val string) {
	s, _ := isStruct(structT)
	sortName := vc.ss().sortOf(structT)
	for i := 0; i < s.NumFields(); i++ {
		vc.writeField(st, ref, structT, i, sx(fmt.Sprintf("%s_%d", sortName, i), val))
	}
}

func (vc *VC) cellVar(t types.Type) (string, string) {
	sort := vc.ss().sortOf(t)
	return "cell_" + mangle(sort), "(Array Int " + sort + ")"
}

// elemVar: the backing arrays of slices, one state variable per Go element type (a backing array has
// exactly one element type, so slices of different element types never share storage; byte/uint8 and
// rune/int32 are the same type).
func (vc *VC) elemVar(t types.Type) (string, string) {
	sort := vc.ss().sortOf(t)
	return "el_" + mangle(canonTypeName(t)), "(Array Int (Array Int " + sort + "))"
}

func canonTypeName(t types.Type) string {
	t = types.Unalias(t)
	switch u := t.(type) {
	case *types.Basic:
		if u.Kind() == types.UntypedNil {
			return "nil"
		}
		return types.Typ[u.Kind()].Name()
	case *types.Pointer:
		return "P" + canonTypeName(u.Elem())
	case *types.Slice:
		return "L" + canonTypeName(u.Elem())
	case *types.Interface:
		if u.NumMethods() == 0 {
			return "any"
		}
	}
	return byteRuneRe.ReplaceAllStringFunc(shortTypeName(t), func(m string) string {
		if m == "byte" {
			return "uint8"
		}
		return "int32"
	})
}

func (vc *VC) mapVars(m *types.Map) (has, hasSort, val, valSort string) {
	ks := vc.ss().sortOf(m.Key())
	vs := vc.ss().sortOf(m.Elem())
	return "mh_" + mangle(ks), "(Array Int (Array " + ks + " Bool))", "mv_" + mangle(ks) + "_" + mangle(vs), "(Array Int (Array " + ks + " " + vs + "))"
}

// elemRead reads element i of slice s (no bounds obligation).
func (vc *VC) elemRead(st *State, s string, i string, elemT types.Type) Term {
	name, sort := vc.elemVar(elemT)
	return Term{S: sx("select", sx("select", vc.get(st, name, sort), sx("sl_ref", s)), sx("sl_idx", s, i)),
		Sort: vc.ss().sortOf(elemT), T: elemT}
}

func (vc *VC) elemWrite(st *State, s string, i string, elemT types.Type, val string) {
	name, sort := vc.elemVar(elemT)
	cur := vc.get(st, name, sort)
	ref := slRef(s)
	inner := sx("store", sx("select", cur, ref), sx("sl_idx", s, i), val)
	vc.setAt(st, name, sort, ref, inner)
}

// slRef gives the backing reference of slice term s, simplified when s is a literal mk-slice.
func slRef(s string) string {
	if strings.HasPrefix(s, "(mk-slice ") {
		rest := s[len("(mk-slice "):]
		if rest != "" && rest[0] != '(' {
			if i := strings.IndexByte(rest, ' '); i > 0 {
				return rest[:i]
			}
		}
	}
	return sx("sl_ref", s)
}

// load reads through an address term.
func (vc *VC) load(st *State, p Term) Term {
	pt, ok := types.Unalias(p.T).Underlying().(*types.Pointer)
	if !ok {
		panic("load of non-pointer " + p.T.String())
	}
	elem := pt.Elem()
	if l := p.Loc; l != nil {
		switch l.Kind {
		case locField:
			t := vc.subValue(vc.readField(st, l.Base.S, l.Struct, l.Field), l)
			if len(l.Sub) == 0 {
				if _, isChan := types.Unalias(t.T).Underlying().(*types.Chan); isChan {
					sf, _ := isStruct(l.Struct)
					t.Prov = vc.ss().structKey(l.Struct) + "." + sf.Field(l.Field).Name()
				}
			}
			return t
		case locElem:
			v := vc.elemRead(st, l.Base.S, l.Idx.S, l.ElemT)
			return vc.subValue(v, l)
		case locGlobal:
			sort := vc.ss().sortOf(l.ElemT)
			v := Term{S: vc.get(st, l.Global, sort), Sort: sort, T: l.ElemT}
			return vc.subValue(v, l)
		case locCell:
			if len(l.Sub) > 0 {
				name, sort := vc.cellVar(l.ElemT)
				v := Term{S: sx("select", vc.get(st, name, sort), l.Base.S), Sort: vc.ss().sortOf(l.ElemT), T: l.ElemT}
				return vc.subValue(v, l)
			}
		}
	}
	if subObject(elem) {
		return vc.loadStruct(st, p.S, elem)
	}
	name, sort := vc.cellVar(elem)
	return Term{S: sx("select", vc.get(st, name, sort), p.S), Sort: vc.ss().sortOf(elem), T: elem}
}

// subValue projects the sub-field path of l out of the whole value v.
func (vc *VC) subValue(v Term, l *Loc) Term {
	for k, fi := range l.Sub {
		st := l.SubT[k]
		s, _ := isStruct(st)
		sortName := vc.ss().sortOf(st)
		ft := s.Field(fi).Type()
		v = Term{S: sx(fmt.Sprintf("%s_%d", sortName, fi), v.S), Sort: vc.ss().sortOf(ft), T: ft}
	}
	return v
}

// updateSub rebuilds the whole value with the sub-field path replaced by val.
func (vc *VC) updateSub(whole string, l *Loc, k int, val string) string {
	if k == len(l.Sub) {
		return val
	}
	st := l.SubT[k]
	s, _ := isStruct(st)
	sortName := vc.ss().sortOf(st)
	var fs []string
	for i := 0; i < s.NumFields(); i++ {
		acc := sx(fmt.Sprintf("%s_%d", sortName, i), whole)
		if i == l.Sub[k] {
			fs = append(fs, vc.updateSub(acc, l, k+1, val))
		} else {
			fs = append(fs, acc)
		}
	}
	return sx("mk_"+sortName, fs...)
}

func (vc *VC) store(st *State, p Term, val Term) {
	pt, ok := types.Unalias(p.T).Underlying().(*types.Pointer)
	if !ok {
		panic("store to non-pointer")
	}
	elem := pt.Elem()
	if l := p.Loc; l != nil {
		switch l.Kind {
		case locField:
			v := val.S
			if len(l.Sub) > 0 {
				whole := vc.readField(st, l.Base.S, l.Struct, l.Field)
				v = vc.updateSub(whole.S, l, 0, val.S)
			}
			vc.writeField(st, l.Base.S, l.Struct, l.Field, v)
			return
		case locElem:
			v := val.S
			if len(l.Sub) > 0 {
				whole := vc.elemRead(st, l.Base.S, l.Idx.S, l.ElemT)
				v = vc.updateSub(whole.S, l, 0, val.S)
			}
			vc.elemWrite(st, l.Base.S, l.Idx.S, l.ElemT, v)
			return
		case locGlobal:
			sort := vc.ss().sortOf(l.ElemT)
			v := val.S
			if len(l.Sub) > 0 {
				v = vc.updateSub(vc.get(st, l.Global, sort), l, 0, val.S)
			}
			vc.set(st, l.Global, sort, v)
			return
		case locCell:
			if len(l.Sub) > 0 {
				name, sort := vc.cellVar(l.ElemT)
				cur := vc.get(st, name, sort)
				v := vc.updateSub(sx("select", cur, l.Base.S), l, 0, val.S)
				vc.setAt(st, name, sort, l.Base.S, v)
				_ = cur
				return
			}
		}
	}
	if subObject(elem) {
		vc.storeStruct(st, p.S, elem, val.S)
		return
	}
	name, sort := vc.cellVar(elem)
	vc.setAt(st, name, sort, p.S, val.S)
}

// allocRef returns a fresh, non-nil, not previously existing reference.
func (vc *VC) allocRef(prefix string) string {
	// allocation constants are named after the allocating instruction so that the names are
	// the same in the discovery pass and in the real pass
	r := "al_" + prefix
	for i := 2; vc.declared[r]; i++ {
		r = fmt.Sprintf("al_%s_%d", prefix, i)
	}
	vc.declare(r, "Int")
	vc.hasAlloc = true
	cs := []string{sx(">", r, "0"), not(sx("is_old", r))}
	for _, a := range vc.allocs {
		cs = append(cs, not(sx("=", r, a)))
	}
	vc.allocs = append(vc.allocs, r)
	if vc.curBlock != nil {
		vc.allocBlock[r] = vc.curBlock
		// the object did not exist when any enclosing loop started
		for _, li := range vc.loops {
			if li.blocks[vc.curBlock] {
				vc.declarePre(li.ordinal)
				cs = append(cs, not(sx(fmt.Sprintf("pre_L%d", li.ordinal), r)))
				cs = append(cs, not(sx(vc.declareCur(li.ordinal), r)))
			}
		}
	}
	vc.assume(and(cs...))
	return r
}

// declarePre declares pre_Lk ("existed when loop k started"); whatever existed at function entry did.
func (vc *VC) declarePre(k int) {
	n := fmt.Sprintf("pre_L%d", k)
	if vc.declared[n] {
		return
	}
	vc.declareFun(n, []string{"Int"}, "Bool")
	vc.preamble = append(vc.preamble, fmt.Sprintf("(assert (forall ((x Int)) (! (=> (is_old x) (%s x)) :pattern ((%s x)))))", n, n))
}

// declareCur declares cur_Lk ("existed when the current iteration of loop k started").
func (vc *VC) declareCur(k int) string {
	n := fmt.Sprintf("cur_L%d", k)
	if !vc.declared[n] {
		vc.declareFun(n, []string{"Int"}, "Bool")
	}
	return n
}

// zeroInit stores the zero value into a freshly allocated object of type t.
func (vc *VC) zeroInit(st *State, ref string, t types.Type) {
	if s, ok := isStruct(t); ok && subObject(t) {
		for i := 0; i < s.NumFields(); i++ {
			ft := s.Field(i).Type()
			if subObject(ft) {
				vc.zeroInit(st, sx(vc.subFun(t, i), ref), ft)
				continue
			}
			vc.writeField(st, ref, t, i, vc.ss().zero(ft))
		}
		return
	}
	name, sort := vc.cellVar(t)
	vc.setAt(st, name, sort, ref, vc.ss().zero(t))
}

// strLit builds the Str term of a Go string constant.
func strLit(s string) string {
	arr := "((as const (Array Int Int)) 0)"
	for i := 0; i < len(s); i++ {
		arr = sx("store", arr, fmt.Sprint(i), fmt.Sprint(int(s[i])))
	}
	return sx("mk-str", fmt.Sprint(len(s)), arr)
}

// sortStrings returns a sorted copy.
func sortStrings(xs []string) []string {
	ys := append([]string(nil), xs...)
	sort.Strings(ys)
	return ys
}
