; conversions between float widths are opaque (values are bit patterns)
(declare-fun f32_to_f64 (Int) Int)
(declare-fun f64_to_f32 (Int) Int)
