; conversions between float widths are opaque (values are bit patterns)
(declare-fun f32_to_f64 (Int) Int)
(declare-fun f64_to_f32 (Int) Int)

; strconv.ParseInt(s, 10, 64): which strings are decimal int64 literals, and their value (abstract)
(declare-fun dec_int64 (Str) Bool)
(declare-fun dec_val (Str) Int)
(assert (forall ((s Str)) (! (=> (dec_int64 s) (and (<= (- 9223372036854775808) (dec_val s)) (<= (dec_val s) 9223372036854775807))) :pattern ((dec_val s)))))
(assert (forall ((s Str)) (! (=> (dec_int64 s) (and (>= (slen s) 1) (=> (< (dec_val s) 0) (= (select (sarr s) 0) 45)))) :pattern ((dec_int64 s)))))
