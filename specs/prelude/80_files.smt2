; abstract file-system and clock facts used by the appender contracts
(declare-fun de_info (Iface) Iface)       ; the FileInfo a DirEntry yields
(declare-fun de_info_ok (Iface) Bool)     ; whether DirEntry.Info succeeds
(declare-fun time_before (S_time_Time S_time_Time) Bool)
(declare-fun time_add (S_time_Time Int) S_time_Time)
(declare-fun time_fmt (S_time_Time Str) Str)   ; Time.Format(layout)
(declare-fun path_join (Str Str) Str)
(declare-fun rot_time (Int S_time_Time) Int)   ; Truncate(interval).Unix()
(declare-fun time_trunc (S_time_Time Int) S_time_Time)
(declare-fun time_unix (S_time_Time) Int)
