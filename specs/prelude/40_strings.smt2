; specification functions for the library calls on strings that the code uses.
; NOTE: the Str datatype also contains values with a negative length; every axiom quantified over Str
; must hold for those too (or be guarded by slen >= 0), otherwise the theory is inconsistent -- an
; early version claimed 0 <= slen(str_trim s) <= slen s unguarded, and z3 5.1.0 rightly derived false.
; The prelude consistency check run by every check (engine#prelude-consistent) guards against this.
; decimal rendering of an integer: abstract, with the facts the proofs need
(declare-fun itoa (Int) Str)
; strconv.Itoa(0) is "0"
(assert (= (itoa 0) (mk-str 1 (store ((as const (Array Int Int)) 0) 0 48))))
(assert (forall ((n Int)) (! (and (>= (slen (itoa n)) 1) (<= (slen (itoa n)) 20)) :pattern ((itoa n)))))
(assert (forall ((n Int) (i Int)) (! (and (<= 0 (select (sarr (itoa n)) i)) (<= (select (sarr (itoa n)) i) 255) (=> (or (< i 0) (>= i (slen (itoa n)))) (= (select (sarr (itoa n)) i) 0))) :pattern ((select (sarr (itoa n)) i)))))
(declare-fun str_upper (Str) Str)
; (the length may change: Unicode case mappings differ in encoded length, invalid bytes become U+FFFD)
(assert (forall ((s Str)) (! (=> (>= (slen s) 0) (and (>= (slen (str_upper s)) 0) (<= (slen (str_upper s)) (* 4 (slen s))))) :pattern ((str_upper s)))))
(assert (forall ((s Str) (i Int)) (! (and (<= 0 (select (sarr (str_upper s)) i)) (<= (select (sarr (str_upper s)) i) 255) (=> (or (< i 0) (>= i (slen (str_upper s)))) (= (select (sarr (str_upper s)) i) 0))) :pattern ((select (sarr (str_upper s)) i)))))
(assert (forall ((s Str)) (! (= (str_upper (str_upper s)) (str_upper s)) :pattern ((str_upper (str_upper s))))))
(declare-fun str_lower (Str) Str)
; (the length may change: Unicode case mappings differ in encoded length, invalid bytes become U+FFFD)
(assert (forall ((s Str)) (! (=> (>= (slen s) 0) (and (>= (slen (str_lower s)) 0) (<= (slen (str_lower s)) (* 4 (slen s))))) :pattern ((str_lower s)))))
(assert (forall ((s Str) (i Int)) (! (and (<= 0 (select (sarr (str_lower s)) i)) (<= (select (sarr (str_lower s)) i) 255) (=> (or (< i 0) (>= i (slen (str_lower s)))) (= (select (sarr (str_lower s)) i) 0))) :pattern ((select (sarr (str_lower s)) i)))))
(declare-fun str_trim (Str) Str)
(assert (forall ((s Str)) (! (=> (>= (slen s) 0) (and (>= (slen (str_trim s)) 0) (<= (slen (str_trim s)) (slen s)))) :pattern ((str_trim s)))))
(assert (forall ((s Str) (i Int)) (! (and (<= 0 (select (sarr (str_trim s)) i)) (<= (select (sarr (str_trim s)) i) 255) (=> (or (< i 0) (>= i (slen (str_trim s)))) (= (select (sarr (str_trim s)) i) 0))) :pattern ((select (sarr (str_trim s)) i)))))
; prefix / suffix tests
(define-fun has_prefix ((s Str) (p Str)) Bool
  (and (<= (slen p) (slen s)) (= (str_sub s 0 (slen p)) p)))
(define-fun has_suffix ((s Str) (p Str)) Bool
  (and (<= (slen p) (slen s)) (= (str_sub s (- (slen s) (slen p)) (slen s)) p)))
; the prefix test as a function symbol (the meaning of has_prefix), so that lemmas about prefixes have a trigger
(declare-fun pfx (Str Str) Bool)
; (stated byte by byte rather than as has_prefix, an equality of strings: facts about prefixes then follow by
; instantiation alone, without array extensionality, on which the solvers are erratic)
(assert (forall ((s Str) (p Str)) (! (= (pfx s p) (and (<= (slen p) (slen s))
    (forall ((i Int)) (! (=> (and (<= 0 i) (< i (slen p))) (= (select (sarr s) i) (select (sarr p) i))) :pattern ((select (sarr s) i)))))) :pattern ((pfx s p)))))
; unsafe.StringData / unsafe.String: the bytes behind a data pointer
(declare-fun str_data (Str) Int)
(declare-fun str_of (Int Int) Str)
(assert (forall ((s Str)) (! (= (str_of (str_data s) (slen s)) s) :pattern ((str_data s)))))
(assert (forall ((s Str)) (! (>= (str_data s) 0) :pattern ((str_data s)))))
; index of the last occurrence of byte c in s, or -1 (strings.LastIndex with a one-byte needle)
(declare-fun str_last (Str Int) Int)
(assert (forall ((s Str) (c Int)) (! (=> (>= (slen s) 0) (and (<= (- 1) (str_last s c)) (< (str_last s c) (slen s))
    (=> (>= (str_last s c) 0) (= (select (sarr s) (str_last s c)) c)))) :pattern ((str_last s c)))))
(assert (forall ((s Str) (c Int) (k Int)) (! (=> (and (>= (slen s) 0) (< (str_last s c) k) (< k (slen s))) (not (= (select (sarr s) k) c))) :pattern ((str_last s c) (select (sarr s) k)))))
; strings.Contains (abstract; for a one-byte needle: the byte occurs)
(declare-fun str_contains (Str Str) Bool)
(assert (forall ((s Str) (p Str)) (! (=> (and (>= (slen s) 0) (= (slen p) 1)) (= (str_contains s p) (>= (str_last s (select (sarr p) 0)) 0))) :pattern ((str_contains s p)))))
; strings.Split with a one-byte separator: the number of pieces and the pieces themselves (abstract)
(declare-fun split_count (Str Int) Int)
(declare-fun split_piece (Str Int Int) Str)
(assert (forall ((s Str) (c Int)) (! (>= (split_count s c) 1) :pattern ((split_count s c)))))
(assert (forall ((s Str) (c Int)) (! (=> (= (slen s) 0) (= (split_count s c) 1)) :pattern ((split_count s c)))))
; one piece more than there are separators
(assert (forall ((s Str) (c Int)) (! (=> (>= (slen s) 0) (<= (split_count s c) (+ (slen s) 1))) :pattern ((split_count s c)))))
; wit(s): always true; written inside an existential over strings so that the witness of one instance is
; a ground term the solver can try for another (a trigger that does not depend on any heap version)
(declare-fun wit (Str) Bool)
(assert (forall ((s Str)) (! (wit s) :pattern ((wit s)))))
(declare-fun witi (Int) Bool)
(assert (forall ((i Int)) (! (witi i) :pattern ((witi i)))))
; iterators over strings (iter.Seq[string]): how many items, and the items in order
(declare-fun seq_len (Int) Int)
(declare-fun seq_item_Str (Int Int) Str)
; the language of the STRING token of expr/Expr.g4:  '"' ( ~["\\] | '\\' ["\\/bfnrt] )* '"'   (abstract; what the
; proofs need: a token has both quotes)
(declare-fun lex_string (Str) Bool)
(assert (forall ((s Str)) (! (=> (lex_string s) (and (>= (slen s) 2) (= (select (sarr s) 0) 34) (= (select (sarr s) (- (slen s) 1)) 34))) :pattern ((lex_string s)))))
; the strings strconv.Unquote accepts, and its result (abstract)
(declare-fun go_quoted (Str) Bool)
(declare-fun go_unquote (Str) Str)
