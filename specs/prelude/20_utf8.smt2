; depends: bytes
; RFC 3629 / Unicode Table 3-7, on raw bytes.  A sequence is well formed iff
; ok2/ok3/ok4 holds for its bytes; anything else decodes to (U+FFFD, 1).
(define-fun cont ((b Int)) Bool (and (<= 128 b) (<= b 191)))
(define-fun ok2b ((b0 Int) (b1 Int)) Bool (and (<= 194 b0) (<= b0 223) (cont b1)))
(define-fun ok3b ((b0 Int) (b1 Int) (b2 Int)) Bool
  (and (<= 224 b0) (<= b0 239) (cont b1) (cont b2)
       (=> (= b0 224) (<= 160 b1)) (=> (= b0 237) (<= b1 159))))
(define-fun ok4b ((b0 Int) (b1 Int) (b2 Int) (b3 Int)) Bool
  (and (<= 240 b0) (<= b0 244) (cont b1) (cont b2) (cont b3)
       (=> (= b0 240) (<= 144 b1)) (=> (= b0 244) (<= b1 143))))
(define-fun rune2 ((b0 Int) (b1 Int)) Int (+ (* (- b0 192) 64) (- b1 128)))
(define-fun rune3 ((b0 Int) (b1 Int) (b2 Int)) Int (+ (* (- b0 224) 4096) (* (- b1 128) 64) (- b2 128)))
(define-fun rune4 ((b0 Int) (b1 Int) (b2 Int) (b3 Int)) Int
  (+ (* (- b0 240) 262144) (* (- b1 128) 4096) (* (- b2 128) 64) (- b3 128)))
(define-fun u8 ((s Str) (i Int)) Int (select (sarr s) i))
(define-fun utf8_ok2 ((s Str) (i Int)) Bool (and (<= (+ i 2) (slen s)) (ok2b (u8 s i) (u8 s (+ i 1)))))
(define-fun utf8_ok3 ((s Str) (i Int)) Bool (and (<= (+ i 3) (slen s)) (ok3b (u8 s i) (u8 s (+ i 1)) (u8 s (+ i 2)))))
(define-fun utf8_ok4 ((s Str) (i Int)) Bool (and (<= (+ i 4) (slen s)) (ok4b (u8 s i) (u8 s (+ i 1)) (u8 s (+ i 2)) (u8 s (+ i 3)))))
(define-fun utf8_size ((s Str) (i Int)) Int
  (ite (< (u8 s i) 128) 1 (ite (utf8_ok2 s i) 2 (ite (utf8_ok3 s i) 3 (ite (utf8_ok4 s i) 4 1)))))
(define-fun utf8_rune ((s Str) (i Int)) Int
  (ite (< (u8 s i) 128) (u8 s i)
  (ite (utf8_ok2 s i) (rune2 (u8 s i) (u8 s (+ i 1)))
  (ite (utf8_ok3 s i) (rune3 (u8 s i) (u8 s (+ i 1)) (u8 s (+ i 2)))
  (ite (utf8_ok4 s i) (rune4 (u8 s i) (u8 s (+ i 1)) (u8 s (+ i 2)) (u8 s (+ i 3)))
       65533)))))
; the runes of a string prefix, as a snoc list; RP(s,i) is meaningful at decode boundaries bnd(s,i)
(declare-datatypes ((Runes 0)) (((rnil) (rsnoc (rinit Runes) (rlast Int)))))
(declare-fun RP (Str Int) Runes)
(declare-fun bnd (Str Int) Bool)
(assert (forall ((s Str)) (! (= (RP s 0) rnil) :pattern ((RP s 0)))))
(assert (forall ((s Str)) (! (bnd s 0) :pattern ((bnd s 0)))))
(assert (forall ((s Str) (i Int))
  (! (=> (and (bnd s i) (<= 0 i) (< i (slen s)))
         (and (bnd s (+ i (utf8_size s i)))
              (= (RP s (+ i (utf8_size s i))) (rsnoc (RP s i) (utf8_rune s i)))))
     :pattern ((RP s i)))))
