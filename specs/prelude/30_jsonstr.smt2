; depends: bytes utf8
; RFC 8259 section 7: Frag(o, o2, r) -- o2 extends o by exactly one `char` denoting rune r.
(define-fun hexval ((c Int)) Int
  (ite (and (<= 48 c) (<= c 57)) (- c 48)
  (ite (and (<= 97 c) (<= c 102)) (- c 87)
  (ite (and (<= 65 c) (<= c 70)) (- c 55) (- 1)))))
; 1: unescaped ASCII
(define-fun frag1 ((o Bytes) (o2 Bytes) (r Int)) Bool
  (and (= o2 (bsnoc o r)) (<= 32 r) (<= r 127) (not (= r 34)) (not (= r 92))))
; 2: two-character escapes
(define-fun esc2 ((c Int) (r Int)) Bool
  (or (and (= c 34) (= r 34)) (and (= c 92) (= r 92)) (and (= c 47) (= r 47)) (and (= c 98) (= r 8))
      (and (= c 102) (= r 12)) (and (= c 110) (= r 10)) (and (= c 114) (= r 13)) (and (= c 116) (= r 9))))
(define-fun frag2 ((o Bytes) (o2 Bytes) (r Int)) Bool
  (and ((_ is bsnoc) o2) ((_ is bsnoc) (binit o2)) (= (binit (binit o2)) o)
       (= (blast (binit o2)) 92) (esc2 (blast o2) r)))
; 3: \uXXXX, not a surrogate
(define-fun frag6 ((o Bytes) (o2 Bytes) (r Int)) Bool
  (and ((_ is bsnoc) o2) ((_ is bsnoc) (binit o2)) ((_ is bsnoc) (binit (binit o2)))
       ((_ is bsnoc) (binit (binit (binit o2)))) ((_ is bsnoc) (binit (binit (binit (binit o2)))))
       ((_ is bsnoc) (binit (binit (binit (binit (binit o2))))))
       (= (binit (binit (binit (binit (binit (binit o2)))))) o)
       (= (blast (binit (binit (binit (binit (binit o2)))))) 92)
       (= (blast (binit (binit (binit (binit o2))))) 117)
       (let ((h1 (hexval (blast (binit (binit (binit o2))))))
             (h2 (hexval (blast (binit (binit o2)))))
             (h3 (hexval (blast (binit o2))))
             (h4 (hexval (blast o2))))
         (and (>= h1 0) (>= h2 0) (>= h3 0) (>= h4 0)
              (= r (+ (* 4096 h1) (* 256 h2) (* 16 h3) h4))
              (not (and (<= 55296 r) (<= r 57343)))))))
; 4: a well-formed 2-4 byte UTF-8 sequence (unescaped, non-ASCII)
(define-fun fragU2 ((o Bytes) (o2 Bytes) (r Int)) Bool
  (and ((_ is bsnoc) o2) ((_ is bsnoc) (binit o2)) (= (binit (binit o2)) o)
       (ok2b (blast (binit o2)) (blast o2)) (= r (rune2 (blast (binit o2)) (blast o2)))))
(define-fun fragU3 ((o Bytes) (o2 Bytes) (r Int)) Bool
  (and ((_ is bsnoc) o2) ((_ is bsnoc) (binit o2)) ((_ is bsnoc) (binit (binit o2))) (= (binit (binit (binit o2))) o)
       (ok3b (blast (binit (binit o2))) (blast (binit o2)) (blast o2))
       (= r (rune3 (blast (binit (binit o2))) (blast (binit o2)) (blast o2)))))
(define-fun fragU4 ((o Bytes) (o2 Bytes) (r Int)) Bool
  (and ((_ is bsnoc) o2) ((_ is bsnoc) (binit o2)) ((_ is bsnoc) (binit (binit o2))) ((_ is bsnoc) (binit (binit (binit o2))))
       (= (binit (binit (binit (binit o2)))) o)
       (ok4b (blast (binit (binit (binit o2)))) (blast (binit (binit o2))) (blast (binit o2)) (blast o2))
       (= r (rune4 (blast (binit (binit (binit o2)))) (blast (binit (binit o2))) (blast (binit o2)) (blast o2)))))
(define-fun Frag ((o Bytes) (o2 Bytes) (r Int)) Bool
  (or (frag1 o o2 r) (frag2 o o2 r) (frag6 o o2 r) (fragU2 o o2 r) (fragU3 o o2 r) (fragU4 o o2 r)))
; Ext(o0, o, rs): o extends o0 by a sequence of chars denoting exactly the runes rs
(declare-fun Ext (Bytes Bytes Runes) Bool)
(assert (forall ((o Bytes)) (! (Ext o o rnil) :pattern ((Ext o o rnil)))))
(assert (forall ((o0 Bytes) (o Bytes) (o2 Bytes) (rs Runes) (r Int))
  (! (=> (and (Ext o0 o rs) (Frag o o2 r)) (Ext o0 o2 (rsnoc rs r)))
     :pattern ((Ext o0 o rs) (Ext o0 o2 (rsnoc rs r))))))
