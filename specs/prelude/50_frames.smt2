; abstract call stack: up(fr, k) is the frame k levels above frame fr
(declare-fun up (Int Int) Int)
(assert (forall ((f Int)) (! (= (up f 0) f) :pattern ((up f 0)))))
(assert (forall ((f Int) (a Int) (b Int)) (! (=> (and (>= a 0) (>= b 0)) (= (up (up f a) b) (up f (+ a b)))) :pattern ((up (up f a) b)))))
(declare-fun frame_file (Int) Str)
(declare-fun frame_line (Int) Int)
(declare-fun frame_pc (Int) Int)
(declare-fun pc_frame (Int) Int)
(assert (forall ((f Int)) (! (= (pc_frame (frame_pc f)) f) :pattern ((frame_pc f)))))
(declare-fun deep (Int) Bool) ; the frame exists on the current goroutine's stack
