; ghost trace of observable deliveries: (kind, who, what, extra, payload) records in order
;   kind 1: Appender.Append(event)   who = appender, what = event, extra = level code
;   kind 2: Appender.Write(bytes)    who = appender, what = backing store, extra = length, payload = content
;   kind 3: io.Writer.Write / (*os.File).Write on a sink
(declare-datatypes ((Trace 0)) (((tnil) (tsnoc (tinit Trace) (tkind Int) (ta Int) (tb Int) (tc Int) (ts Str)))))
