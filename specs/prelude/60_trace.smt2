; ghost trace of observable deliveries: (kind, who, what, extra, payload) records in order
;   kind 1: Appender.Append(event)   who = appender, what = event, extra = level code
;   kind 2: Appender.Write(bytes)    who = appender, what = backing store, extra = length, payload = content
;   kind 3: io.Writer.Write / (*os.File).Write on a sink
(declare-datatypes ((Trace 0)) (((tnil) (tsnoc (tinit Trace) (tkind Int) (ta Int) (tb Int) (tc Int) (ts Str)))))
;   kind 9: channel send   10: go statement   11: channel receive   12: channel close
(declare-fun tlen (Trace) Int)
(assert (= (tlen tnil) 0))
(assert (forall ((t Trace) (k Int) (a Int) (b Int) (c Int) (s Str)) (! (= (tlen (tsnoc t k a b c s)) (+ (tlen t) 1)) :pattern ((tsnoc t k a b c s)))))
(assert (forall ((t Trace)) (! (>= (tlen t) 0) :pattern ((tlen t)))))
; t is an initial segment of u
(declare-fun tprefix (Trace Trace) Bool)
(assert (forall ((t Trace)) (! (tprefix t t) :pattern ((tprefix t t)))))
(assert (forall ((a Trace) (b Trace) (k Int) (x Int) (y Int) (z Int) (s Str)) (! (=> (tprefix a b) (tprefix a (tsnoc b k x y z s))) :pattern ((tprefix a (tsnoc b k x y z s))))))
(assert (forall ((a Trace) (b Trace) (c Trace)) (! (=> (and (tprefix a b) (tprefix b c)) (tprefix a c)) :pattern ((tprefix a b) (tprefix b c)))))
