; ghost trace of observable deliveries: (kind, who, what, extra) records in order
(declare-datatypes ((Trace 0)) (((tnil) (tsnoc (tinit Trace) (tkind Int) (ta Int) (tb Int) (tc Int)))))
