; depends: bytes
; The structure of a JSON text as a pushdown machine, derived from the grammar of RFC 8259 (sections 2-5),
; NOT from the encoder's code.  A frame is one open container (or the top level):
;   kind 0 = top level, 1 = object, 2 = array;  cnt = number of completed children;  pend = a member name
;   has been written and its value is still missing (objects only).
(declare-datatypes ((Frame 0)) (((mk-frame (fkind Int) (fcnt Int) (fpend Bool)))))
(declare-datatypes ((Stk 0)) (((snil) (scons (shead Frame) (stail Stk)))))
(define-fun stk0 () Stk (scons (mk-frame 0 0 false) snil))
; where may the next token go?
(define-fun key_legal ((s Stk)) Bool (and ((_ is scons) s) (= (fkind (shead s)) 1) (not (fpend (shead s)))))
(define-fun value_legal ((s Stk)) Bool
  (and ((_ is scons) s)
       (or (= (fkind (shead s)) 2)
           (and (= (fkind (shead s)) 1) (fpend (shead s)))
           (and (= (fkind (shead s)) 0) (= (fcnt (shead s)) 0)))))
(define-fun end_obj_legal ((s Stk)) Bool
  (and ((_ is scons) s) (= (fkind (shead s)) 1) (not (fpend (shead s))) ((_ is scons) (stail s))))
(define-fun end_arr_legal ((s Stk)) Bool
  (and ((_ is scons) s) (= (fkind (shead s)) 2) ((_ is scons) (stail s))))
; value-separator: members of an object and elements of an array are separated by exactly one comma
(define-fun comma_before_key ((s Stk)) Bool (> (fcnt (shead s)) 0))
(define-fun comma_before_value ((s Stk)) Bool (and (= (fkind (shead s)) 2) (> (fcnt (shead s)) 0)))
; effects of the tokens on the structure
(define-fun stk_key ((s Stk)) Stk (scons (mk-frame (fkind (shead s)) (fcnt (shead s)) true) (stail s)))
(define-fun stk_child_done ((s Stk)) Stk (scons (mk-frame (fkind (shead s)) (+ (fcnt (shead s)) 1) false) (stail s)))
(define-fun stk_push ((s Stk) (k Int)) Stk (scons (mk-frame k 0 false) s))
(define-fun stk_pop ((s Stk)) Stk (stk_child_done (stail s)))
(declare-fun stk_height (Stk) Int)
(assert (= (stk_height snil) 0))
(assert (forall ((f Frame) (t Stk)) (! (= (stk_height (scons f t)) (+ 1 (stk_height t))) :pattern ((scons f t)))))
(assert (forall ((s Stk)) (! (>= (stk_height s) 0) :pattern ((stk_height s)))))
; representation invariant of an encoder that remembers only the kind of the last token written
;   last: 0 unknown/none, 1 object begin, 2 object end, 3 array begin, 4 array end, 5 key, 6 value
(define-fun json_rep ((last Int) (s Stk)) Bool
  (and ((_ is scons) s) (>= (fcnt (shead s)) 0)
       (=> (fpend (shead s)) (= (fkind (shead s)) 1))
       (or (and (= last 0) (= (fkind (shead s)) 0) (= (fcnt (shead s)) 0) (not (fpend (shead s))))
           (and (= last 1) (= (fkind (shead s)) 1) (= (fcnt (shead s)) 0) (not (fpend (shead s))))
           (and (= last 3) (= (fkind (shead s)) 2) (= (fcnt (shead s)) 0) (not (fpend (shead s))))
           (and (= last 5) (fpend (shead s)))
           (and (or (= last 2) (= last 4) (= last 6)) (> (fcnt (shead s)) 0) (not (fpend (shead s)))))))
; scalar tokens (rendered by strconv, abstract here: the same symbol on the JSON and the text side)
(declare-fun fmt_bool (Bool) Str)
(declare-fun fmt_int (Int Int) Str)    ; value, base
(declare-fun fmt_uint (Int Int) Str)
(declare-fun fmt_float (Int) Str)      ; float64 by bit pattern, format 'f', shortest, 64 bit
(define-fun float_finite ((bits Int)) Bool (not (= (mod (div bits 4503599627370496) 2048) 2047)))
(declare-fun stk_ok (Stk) Bool)   ; every frame has a non-negative child count
(assert (stk_ok snil))
(assert (forall ((f Frame) (t Stk)) (! (= (stk_ok (scons f t)) (and (>= (fcnt f) 0) (stk_ok t))) :pattern ((stk_ok (scons f t))))))
(define-fun float_is_nan ((bits Int)) Bool (and (= (mod (div bits 4503599627370496) 2048) 2047) (not (= (mod bits 4503599627370496) 0))))
(define-fun float_is_inf ((bits Int)) Bool (and (= (mod (div bits 4503599627370496) 2048) 2047) (= (mod bits 4503599627370496) 0)))
; well-formedness of a list of fields (payload agrees with the type tag, recursively for nested objects):
; abstract and heap-independent -- field lists handed to the library are not modified while it runs
(declare-fun wf_fields (Slice) Bool)
