#!/bin/bash
# Must-fail / must-pass corpus: each mutants/*.patch is applied to a scratch worktree of /repo
# (outside /repo and /verif, removed afterwards) and the check of its property is run there.
#   header lines in the patch:  # property: C09   # expect: <obligation substring>   # must: fail|pass
# usage: selftest/run.sh [pattern]
set -u
cd "$(dirname "$0")/.."
export GOFLAGS=-mod=mod GOPROXY=off
unset GOSUMDB
pat="${1:-}"
fail=0
run_one() {
  p="$1"
  name=$(basename "$p" .patch)
  prop=$(grep -m1 '^# property:' "$p" | awk '{print $3}')
  expect=$(grep -m1 '^# expect:' "$p" | sed 's/^# expect: *//')
  must=$(grep -m1 '^# must:' "$p" | awk '{print $3}')
  [ -z "$must" ] && must=fail
  wt=$(mktemp -d /tmp/govc-mut-XXXXXX)
  rmdir "$wt"
  git -C /repo worktree add -q --detach "$wt" HEAD >/dev/null 2>&1 || { echo "SELFTEST-ERROR $name: worktree"; return 1; }
  # the base is /repo's working tree: its uncommitted changes are carried over first
  if [ -n "$(git -C /repo status --porcelain --untracked-files=no)" ]; then
    git -C /repo diff HEAD | ( cd "$wt" && git apply --whitespace=nowarn ) || { echo "SELFTEST-ERROR $name: working-tree changes do not carry over"; git -C /repo worktree remove --force "$wt"; return 1; }
  fi
  if ! ( cd "$wt" && git apply --whitespace=nowarn "$OLDPWD/$p" ) 2>/dev/null; then
    git -C /repo worktree remove --force "$wt" >/dev/null 2>&1; rm -rf "$wt"
    if [ -n "${SELFTEST_TOLERANT:-}" ]; then echo "skip $name ($prop): patch does not apply to the current tree"; return 0; fi
    echo "SELFTEST-ERROR $name: patch does not apply"; return 1
  fi
  out=$(bin/govc check "$prop" -repo "$wt" -noreplay -evidence /dev/null 2>&1)
  git -C /repo worktree remove --force "$wt" >/dev/null 2>&1
  rm -rf "$wt"
  if [ "$must" = fail ]; then
    if echo "$out" | grep -q "^VIOLATION" && { [ -z "$expect" ] || echo "$out" | grep "^VIOLATION" | grep -qF "$expect"; }; then
      echo "ok   $name ($prop): flagged $(echo "$out" | grep -c '^VIOLATION') obligation(s)"
    else
      echo "MISS $name ($prop): expected a violation of '$expect'"; echo "$out" | tail -3; return 1
    fi
  else
    if echo "$out" | grep -q "^VIOLATION"; then
      echo "FALSE-ALARM $name ($prop)"; echo "$out" | grep '^VIOLATION' | head -3; return 1
    else
      echo "ok   $name ($prop): tolerated"
    fi
  fi
}
export -f run_one
log=$(mktemp /tmp/govc-selftest-XXXXXX.log)
ls selftest/mutants/*${pat}*.patch 2>/dev/null | xargs -P ${SELFTEST_JOBS:-4} -I{} bash -c 'run_one {}' | tee "$log"
rc=0
if grep -q "^MISS\|^FALSE-ALARM\|^SELFTEST-ERROR" "$log"; then rc=1; fi
rm -f "$log"
exit $rc
