#!/bin/bash
# runs the quick check of every property claimed in MANIFEST.json; prints one line each; exit 1 if any fails
cd "$(dirname "$0")/.."
fail=0
for p in $(python3 -c "import json; print(' '.join(c['property_id'] for c in json.load(open('MANIFEST.json'))['checks']))"); do
  out=$(./check $p 2>&1); rc=$?
  echo "$out" | tail -1
  if [ $rc -ne 0 ]; then fail=1; echo "$out" | grep '^VIOLATION' | head -3; fi
done
exit $fail
