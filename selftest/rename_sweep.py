#!/usr/bin/env python3
# Renamed-local sweep: for every local variable that a contract names, rename it in a scratch worktree
# (all identifiers denoting it, found with go/types by `govc renames`) and run the check of one property of
# that function: the check must stay silent.  usage: selftest/rename_sweep.py [substring-of-function]
import json, os, subprocess, sys, shutil, tempfile
env = dict(os.environ, GOFLAGS='-mod=mod', GOPROXY='off')
env.pop('GOSUMDB', None)
pat = sys.argv[1] if len(sys.argv) > 1 and not sys.argv[1].startswith('--') else ''
done = set()
for a in sys.argv[1:]:
    if a.startswith('--skip-ok='):
        for l in open(a[len('--skip-ok='):]):
            if l.startswith('ok  '):
                f = l.split()
                done.add((' '.join(f[1:-2]), f[-2]))
cost = {'C13':1,'C14':2,'C19':2,'C20':2,'C04':3,'C03':3,'C06':4,'C09':4,'C18':5,'C05':6,'C12':6,'C08':7,'C16':8,'C11':8,'C10':9,'C01':9,'C07':9,'C02':12,'C15':20,'C17':25}
items = json.loads(subprocess.run(['bin/govc','renames','-repo','/repo'],capture_output=True,text=True,env=env,cwd='/verif').stdout)
wt = tempfile.mkdtemp(prefix='govc-rename-'); os.rmdir(wt)
subprocess.run(['git','-C','/repo','worktree','add','-q','--detach',wt,'HEAD'],check=True)
seen=set(); bad=0; n=0
try:
    for it in items:
        key=(it['file'],tuple(it['offsets']))
        if key in seen or pat not in it['func'] or not it['offsets'] or not it.get('props') or (it['func'], it['local']) in done: continue
        seen.add(key)
        rel=os.path.relpath(it['file'],'/repo'); path=os.path.join(wt,rel)
        src=open(path,'rb').read(); new=it['local']+'Rn'; out=src; ok=True
        for off in sorted(it['offsets'],reverse=True):
            if out[off:off+len(it['local'])]!=it['local'].encode(): ok=False; break
            out=out[:off]+new.encode()+out[off+len(it['local']):]
        if not ok: print('skip (offset mismatch)',it['func'],it['local']); continue
        open(path,'wb').write(out)
        b=subprocess.run(['go','build','./...'],cwd=wt,env=env,capture_output=True,text=True)
        if b.returncode!=0:
            print('skip (does not build)',it['func'],it['local']); open(path,'wb').write(src); continue
        prop=sorted(it['props'],key=lambda p:cost.get(p,10))[0]
        r=subprocess.run(['bin/govc','check',prop,'-repo',wt,'-noreplay','-evidence','/dev/null'],cwd='/verif',env=env,capture_output=True,text=True)
        v=[l for l in r.stdout.split('\n') if l.startswith('VIOLATION')]
        n+=1
        if v:
            bad+=1; print('FALSE-ALARM',it['func'],it['local'],prop,v[0][:260])
        else:
            print('ok  ',it['func'],it['local'],prop)
        open(path,'wb').write(src)
        sys.stdout.flush()
finally:
    subprocess.run(['git','-C','/repo','worktree','remove','--force',wt]); shutil.rmtree(wt,ignore_errors=True)
print(f'renamed-local sweep: {n} renames checked, {bad} false alarms')
sys.exit(1 if bad else 0)
