#!/bin/bash
# builds the verifier offline from the sources in /verif/govc
set -e
cd "$(dirname "$0")/govc"
export GOFLAGS=-mod=mod GOPROXY=off GOTOOLCHAIN=local
mkdir -p ../bin
go1.26.8 build -o ../bin/govc .
